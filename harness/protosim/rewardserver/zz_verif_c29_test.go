package rewardserver

import (
	"context"
	"errors"
	"fmt"
	"os"
	"runtime"
	"sort"
	"strconv"
	"strings"
	"time"

	terderminttypes "github.com/cometbft/cometbft/abci/types"
	gojson "github.com/goccy/go-json"
	"github.com/lavanet/lava/v5/utils"
	"github.com/lavanet/lava/v5/utils/rand"
	"github.com/lavanet/lava/v5/utils/sigs"
	pairingtypes "github.com/lavanet/lava/v5/x/pairing/types"
	"github.com/lavanet/lava/v5/zz_verif/simrt"
)

// C29: provider reward proofs keep the best proof and are claimed in window.
//
// Real (instrumented: every lock / atomic / channel / select / WaitGroup / sleep / `go` is a
// scheduling point; every map range is ordered by the simulator): RewardServer (SendNewProof,
// UpdateEpoch -> claim round, retries, PaymentHandler, snapshot job, restoreRewardsFromDB),
// RewardDB, BuildPaymentFromRelayPaymentEvent; BadgerDB (in-memory) in the "badger" profile.
// Simulated behind the code's own interfaces: RewardsTxSender + ChainTrackerSpecsInf (c29Tx over a
// small simulated lava chain), DB (c29Disk = SimDisk), the relay server (producer tasks), the
// epoch / payment event feeds, process crash + restart (a lifetime = one synctest bubble; only the
// SimDisk content and the chain survive).

// ---------------------------------------------------------------------------------------------
// identities

type c29Key struct {
	epoch uint64
	cons  int
	spec  string
	sess  uint64
}

func (k c29Key) String() string {
	return fmt.Sprintf("(epoch %d, consumer c%d, chain %s, session %d)", k.epoch, k.cons, k.spec, k.sess)
}

func c29KeyLess(a, b c29Key) bool {
	if a.epoch != b.epoch {
		return a.epoch < b.epoch
	}
	if a.cons != b.cons {
		return a.cons < b.cons
	}
	if a.spec != b.spec {
		return a.spec < b.spec
	}
	return a.sess < b.sess
}

type c29Proof struct {
	key      c29Key
	cu       uint64
	relayNum uint64
	life     int
	sentSeq  int
	recvSeq  int   // 0 while SendNewProof has not returned
	recvAt   int64 // global simulated ns at which SendNewProof returned
	p        *pairingtypes.RelaySession
}

func (p *c29Proof) String() string { return fmt.Sprintf("%s cu=%d", p.key, p.cu) }

type c29Consumer struct {
	acc  sigs.Account
	addr string
}

// ---------------------------------------------------------------------------------------------
// SimDisk: the durable store behind rewardserver.DB

type c29Entry struct {
	data   []byte
	expire int64 // global simulated ns
}

type c29Store struct {
	spec      string
	data      map[string]c29Entry
	keyOf     map[c29Key]string // disk key under which a proof key was last written
	deletedBy map[string]string // disk key -> why it disappeared
}

type c29Disk struct {
	w    *c29World
	st   *c29Store
	life int
}

var _ DB = (*c29Disk)(nil)

var errC29Zombie = errors.New("simdisk: handle of a dead process")

func (d *c29Disk) Key() string { return d.st.spec }

func (d *c29Disk) Save(e *DBEntry) error { return d.BatchSave([]*DBEntry{e}) }

func (d *c29Disk) zombie() bool { return d.w.life == nil || d.w.life.idx != d.life || d.w.dead }

func (d *c29Disk) BatchSave(entries []*DBEntry) error {
	simrt.Yield("simdisk:BatchSave")
	if d.zombie() {
		return errC29Zombie
	}
	w := d.w
	L := w.life
	n := len(entries)
	apply := n
	var err error
	if w.fault("f.db", "db_batch_fail", w.fr.dbBatchFail) {
		apply, err = 0, errors.New("simdisk: write failed, nothing applied")
	} else if n > 1 && w.fault("f.db", "db_batch_torn", w.fr.dbTorn) {
		apply = 1 + w.r.Draw("f.db", n-1)
		err = fmt.Errorf("simdisk: write failed after %d of %d entries (torn batch)", apply, n)
		w.r.Probe("torn_batch")
	}
	now := w.now()
	if err != nil {
		L.writeFault, L.writeFaultSeq, L.writeFaultAt = true, w.seq, now
	}
	var sb strings.Builder
	for i := 0; i < apply; i++ {
		e := entries[i]
		d.st.data[e.Key] = c29Entry{data: append([]byte(nil), e.Data...), expire: now + int64(e.Ttl)}
		delete(d.st.deletedBy, e.Key)
		if rec := w.decode(e.Data); rec != nil {
			d.st.keyOf[rec.key] = e.Key
			if err == nil {
				// acknowledged write: durable from now on
				w.durable[rec.key] = rec.cu
			}
			if sb.Len() < 300 {
				fmt.Fprintf(&sb, " %s=%d", c29Short(rec.key), rec.cu)
			}
		}
	}
	if err == nil && os.Getenv("VERIF_C29_SKIP_SNAPSHOT_ORACLE") == "" { // (the switch is for sensitivity experiments only)
		// an acknowledged snapshot holds every proof accepted before it was written whose epoch is
		// still inside the active window (so that no claim round can have gathered it): SendNewProof
		// stores under the write lock, the snapshot collects and writes under the read lock
		inBatch := map[c29Key]uint64{}
		for _, e := range entries {
			if rec := w.decode(e.Data); rec != nil && rec.cu > inBatch[rec.key] {
				inBatch[rec.key] = rec.cu
			}
		}
		for _, K := range w.keys {
			if K.spec != d.st.spec || K.epoch+w.dist <= w.cur {
				continue
			}
			c := L.restored[K]
			for _, q := range w.sent[K] {
				if q.life == L.idx && q.recvSeq > 0 && q.cu > c {
					c = q.cu
				}
			}
			if c == 0 {
				continue
			}
			w.r.OracleEvals++
			if inBatch[K] < c {
				w.viol("snapshot-misses-received-proof", "acknowledged-snapshot", fmt.Sprintf("key %s: SendNewProof had accepted CuSum %d before this snapshot of chain %s was written and acknowledged, its epoch is still active (chain at %d, window %d) so no claim can have removed it, but the snapshot holds CuSum %d for it (0 = absent): a crash now loses a proof that counts as snapshotted", K, c, d.st.spec, w.cur, w.dist, inBatch[K]))
				return err
			}
		}
	}
	if L.trigSinceSnap == 0 {
		w.r.Probe("snapshot_by_timer")
	}
	L.trigSinceSnap = 0
	if err == nil {
		w.r.Op("snapshot", "ok")
	} else {
		w.r.Op("snapshot", "err")
	}
	w.r.Logf("[%s] disk %s BatchSave %d entries -> %s:%s", w.clock(), d.st.spec, n, c29Err(err), sb.String())
	return err
}

func (d *c29Disk) FindOne(key string) ([]byte, error) {
	simrt.Yield("simdisk:FindOne")
	if d.zombie() {
		return nil, errC29Zombie
	}
	e, ok := d.st.data[key]
	if !ok || e.expire <= d.w.now() {
		return nil, errors.New("simdisk: key not found")
	}
	return append([]byte(nil), e.data...), nil
}

func (d *c29Disk) FindAll() (map[string][]byte, error) {
	simrt.Yield("simdisk:FindAll")
	if d.zombie() {
		return nil, errC29Zombie
	}
	w := d.w
	L := w.life
	restoring := L.restoring == d.st.spec
	if w.fault("f.db", "db_find_all_fail", w.fr.dbFindFail) {
		if restoring {
			L.findAllFailed[d.st.spec] = true
		}
		w.r.Logf("[%s] disk %s FindAll -> error", w.clock(), d.st.spec)
		return nil, errors.New("simdisk: read failed")
	}
	out := map[string][]byte{}
	now := w.now()
	n := 0
	for _, k := range c29SortedKeys(d.st.data) {
		e := d.st.data[k]
		if e.expire <= now {
			continue
		}
		out[k] = append([]byte(nil), e.data...)
		n++
		if restoring {
			if rec := w.decode(e.data); rec != nil {
				if rec.cu > L.restored[rec.key] {
					L.restored[rec.key] = rec.cu
				}
			}
		}
	}
	if restoring && n > 0 {
		w.r.Probe("restore_found_proofs")
	}
	w.r.Logf("[%s] disk %s FindAll -> %d entries (restoring=%v)", w.clock(), d.st.spec, n, restoring)
	return out, nil
}

func (d *c29Disk) Delete(key string) error {
	simrt.Yield("simdisk:Delete")
	if d.zombie() {
		return errC29Zombie
	}
	if d.w.fault("f.db", "db_delete_fail", d.w.fr.dbDelFail) {
		return errors.New("simdisk: delete failed")
	}
	if e, ok := d.st.data[key]; ok {
		if rec := d.w.decode(e.data); rec != nil {
			d.w.life.removedSeq[rec.key], d.w.life.removedAt[rec.key] = d.w.seq, d.w.now()
		}
		delete(d.st.data, key)
		d.st.deletedBy[key] = "Delete"
	}
	return nil
}

func (d *c29Disk) DeletePrefix(prefix string) error {
	simrt.Yield("simdisk:DeletePrefix")
	if d.zombie() {
		return errC29Zombie
	}
	w := d.w
	if w.fault("f.db", "db_delete_fail", w.fr.dbDelFail) {
		w.r.Logf("[%s] disk %s DeletePrefix(%q) -> error", w.clock(), d.st.spec, c29ShortPrefix(prefix))
		return errors.New("simdisk: delete failed")
	}
	caller := c29Caller()
	pparts := strings.Split(prefix, keySeparator)
	var sb strings.Builder
	nDel := 0
	for _, k := range c29SortedKeys(d.st.data) {
		if !strings.HasPrefix(k, prefix) {
			continue
		}
		kparts := strings.Split(k, keySeparator)
		kind := "exact"
		if len(pparts) == 1 {
			if kparts[0] != pparts[0] {
				kind = "epoch-prefix-matched-longer-epoch"
				w.r.Probe("epoch_prefix_deleted_other_epoch")
			}
		} else if len(kparts) >= 3 && len(pparts) >= 3 && kparts[2] != pparts[2] {
			kind = "session-prefix-matched-longer-session-id"
			w.r.Probe("claimed_prefix_deleted_other_session")
		} else if rec := w.decode(d.st.data[k].data); rec != nil && caller == "PaymentHandler" && w.paying != nil && rec.key != *w.paying {
			kind = "payment-of-same-session-id-on-other-chain"
			w.r.Probe("claimed_prefix_deleted_other_chain")
		}
		if rec := w.decode(d.st.data[k].data); rec != nil {
			w.life.removedSeq[rec.key], w.life.removedAt[rec.key] = w.seq, w.now()
			fmt.Fprintf(&sb, " %s(%s)", c29Short(rec.key), kind)
			if kind != "exact" {
				if cu, ok := w.durable[rec.key]; ok && !w.paid[rec.key] && w.everOK[rec.key] < cu && !w.exhausted[rec.key] {
					// a durable, still unclaimed proof just vanished from the disk: if the process died
					// now it could not be restored (adaptive crash point, see crashReq)
					w.r.Probe("unclaimed_snapshotted_proof_deleted_from_disk")
					if w.adaptiveCrash {
						w.crashReq = true
					}
				}
			}
		}
		delete(d.st.data, k)
		d.st.deletedBy[k] = caller + ":" + kind
		nDel++
	}
	w.r.Logf("[%s] disk %s DeletePrefix(%q) by %s -> deleted %d:%s", w.clock(), d.st.spec, c29ShortPrefix(prefix), caller, nDel, sb.String())
	return nil
}

func (d *c29Disk) Close() error { return nil }

// c29Caller names the reward-server function that is deleting from the DB.
func c29Caller() string {
	pcs := make([]uintptr, 24)
	n := runtime.Callers(2, pcs)
	frames := runtime.CallersFrames(pcs[:n])
	for {
		f, more := frames.Next()
		for _, name := range []string{"PaymentHandler", "updatePaymentRequestAttempt", "gatherFailedRequestPaymentsToRetry", "gatherRewardsForClaim", "restoreRewardsFromDB"} {
			if strings.HasSuffix(f.Function, "."+name) {
				return name
			}
		}
		if !more {
			break
		}
	}
	return "other"
}

func c29SortedKeys(m map[string]c29Entry) []string {
	ks := make([]string, 0, len(m))
	for k := range m {
		ks = append(ks, k)
	}
	sort.Strings(ks)
	return ks
}

// ---------------------------------------------------------------------------------------------
// one process lifetime

type c29Round struct {
	id       int
	startSeq int
	earliest uint64 // what the chain reported to this claim round
	arg      uint64 // epoch passed to UpdateEpoch (0 = could not be matched)
	ended    bool
}

type c29Sub struct {
	n          int  // submissions in this lifetime
	failed     int  // submissions whose tx returned an error
	flying     int  // transactions carrying the proof right now
	concurrent bool // two transactions carried the proof at the same time (overlapping claim rounds)
}

type c29Pay struct {
	due    time.Time
	desc   string
	relays []*pairingtypes.RelaySession
}

type c29Life struct {
	idx           int
	start         time.Time
	rws           *RewardServer
	startupGoid   int64
	restoring     string
	restoreSeq    map[string]int
	findAllFailed map[string]bool
	restored      map[c29Key]uint64
	serving       []string
	rounds        map[int64]*c29Round
	roundList     []*c29Round
	pendingArgs   []uint64
	active        int
	subs          map[*c29Proof]*c29Sub
	keyPaidSeq    map[c29Key]int    // seq at which PaymentHandler returned for the key's payment
	okMax         map[c29Key]uint64 // highest CU successfully submitted in this lifetime
	subMax        map[c29Key]uint64 // highest CU submitted in this lifetime
	sessKeys      map[uint64]map[c29Key]bool
	inFlight      map[c29Key]int
	late          map[c29Key]bool // a proof of the key was still inside SendNewProof when its epoch left the active window
	payQ          []c29Pay
	trigSinceSnap int
	nCalls        int
	epochDone     bool
	loadOpen      bool

	// what the harness knows about snapshot runs that wrote nothing it could see (completed-snapshot oracle)
	trigs         []*c29Proof      // proofs whose SendNewProof handed a threshold trigger to the snapshot job, in order of return
	writeFault    bool             // a BatchSave of this lifetime failed or was torn ...
	writeFaultSeq int              // ... last at this seq
	writeFaultAt  int64            // ... and this simulated instant
	removedSeq    map[c29Key]int   // seq of the last deletion of the key's disk entry in this lifetime
	removedAt     map[c29Key]int64 // simulated instant of that deletion
}

type c29Rates struct {
	txFail, txPanic, txSlow                    [2]int
	dbBatchFail, dbTorn, dbDelFail, dbFindFail [2]int
	epochSkip, epochJump, payLost              [2]int
}

type c29World struct {
	r       *simrt.Run
	profile string
	badger  bool
	fr      c29Rates

	epochSize, dist, memBlocks uint64
	epochDur                   time.Duration
	threshold, snapSec         uint
	specs                      []string
	cons                       []c29Consumer
	sessIDs                    []uint64 // nil: honest consumers (fresh random 63-bit id per session)
	sessMode                   int
	nLives                     int
	adaptiveCrash              bool
	young                      bool
	burst                      bool

	cur, earliest uint64

	disk    map[string]*c29Store
	simBase int64

	seq      int
	sent     map[c29Key][]*c29Proof
	keys     []c29Key
	bySig    map[string]*c29Proof
	hiSent   map[c29Key]uint64
	relayNum map[c29Key]uint64

	durable   map[c29Key]uint64 // CU of the last acknowledged DB write per proof key
	paid      map[c29Key]bool
	everOK    map[c29Key]uint64
	exhausted map[c29Key]bool
	required  map[c29Key]uint64
	reqWhy    map[c29Key]string
	paying    *c29Key

	life      *c29Life
	dead      bool
	crashReq  bool
	disrupted bool
}

var c29DevMute = func() map[string]bool {
	m := map[string]bool{}
	for _, s := range strings.Split(os.Getenv("VERIF_C29_MUTE"), ";") {
		if s != "" {
			m[s] = true
		}
	}
	return m
}()

func (w *c29World) viol(class, sig, detail string) {
	if w.dead {
		return
	}
	w.dead = true
	if c29DevMute[class+"|"+sig] || c29DevMute[class+"|*"] {
		w.r.KnownHits[class+"|"+sig]++
		w.r.Logf("(dev-muted) %s [%s]: %s", class, sig, detail)
		return
	}
	w.r.SetViolation(class, sig, detail) // a listed known finding ends this run quietly
}

// fault draws on the given stream; 0 (exhausted tape) never fires.
func (w *c29World) fault(stream, kind string, rate [2]int) bool {
	if rate[0] <= 0 {
		return false
	}
	if w.r.Draw(stream, rate[1]) >= rate[1]-rate[0] {
		w.r.Fault(kind)
		w.disrupted = true
		return true
	}
	return false
}

func (w *c29World) now() int64 { return w.simBase + int64(time.Since(w.life.start)) }

func (w *c29World) clock() string {
	return fmt.Sprintf("L%d %7.3fs #%d", w.life.idx, time.Since(w.life.start).Seconds(), w.seq)
}

func (w *c29World) decode(data []byte) *c29Proof {
	re := RewardEntity{}
	if err := gojson.Unmarshal(data, &re); err != nil || re.Proof == nil {
		return nil
	}
	return w.bySig[string(re.Proof.Sig)]
}

func c29Short(k c29Key) string { return fmt.Sprintf("e%d/c%d/%s/s%d", k.epoch, k.cons, k.spec, k.sess) }

func c29ShortPrefix(p string) string {
	parts := strings.Split(p, keySeparator)
	for i, s := range parts {
		if len(s) > 16 {
			parts[i] = s[:6] + ".." + s[len(s)-4:]
		}
	}
	return strings.Join(parts, keySeparator)
}

func c29Err(err error) string {
	if err == nil {
		return "ok"
	}
	s := err.Error()
	if len(s) > 70 {
		s = s[:70]
	}
	return "error(" + s + ")"
}

// c29GoIDs returns the id of the current goroutine and of the goroutine that created it. Used only
// to link a TxRelayPayment call to the claim round (runRewardServerEpochUpdate goroutine) that
// gathered it; ids are never logged.
var c29StackBuf = make([]byte, 1<<14) // only the task holding the scheduler token uses it

func c29GoIDs() (self, parent int64) {
	n := runtime.Stack(c29StackBuf, false)
	s := string(c29StackBuf[:n])
	if strings.HasPrefix(s, "goroutine ") {
		j := 10
		for j < len(s) && s[j] >= '0' && s[j] <= '9' {
			j++
		}
		self, _ = strconv.ParseInt(s[10:j], 10, 64)
	}
	if i := strings.LastIndex(s, " in goroutine "); i >= 0 {
		i += len(" in goroutine ")
		j := i
		for j < len(s) && s[j] >= '0' && s[j] <= '9' {
			j++
		}
		parent, _ = strconv.ParseInt(s[i:j], 10, 64)
	}
	return self, parent
}

// ---------------------------------------------------------------------------------------------
// the simulated lava chain as seen through RewardsTxSender / ChainTrackerSpecsInf

type c29Tx struct {
	w *c29World
	L *c29Life
}

var (
	_ RewardsTxSender      = (*c29Tx)(nil)
	_ ChainTrackerSpecsInf = (*c29Tx)(nil)
)

func (t *c29Tx) zombie() bool { return t.w.life != t.L || t.w.dead }

func (t *c29Tx) GetEpochSizeMultipliedByRecommendedEpochNumToCollectPayment(ctx context.Context) (uint64, error) {
	return t.w.dist, nil
}

// GetEpochSize is only used by AddRewardDelayForUnifiedRewardDistribution to draw a crypto/rand
// delay in [0, epochSize/2]; 1 makes that delay 0 (Intn(1)), keeping the run a function of the tape.
func (t *c29Tx) GetEpochSize(ctx context.Context) (uint64, error) { return 1, nil }

func (t *c29Tx) LatestBlock() int64 { return int64(t.w.cur) + 1 }

func (t *c29Tx) GetAverageBlockTime() time.Duration { return time.Second }

func (t *c29Tx) GetLatestBlockNumForSpec(specID string) int64 { return 1000 }

func (t *c29Tx) EarliestBlockInMemory(ctx context.Context) (uint64, error) {
	simrt.Yield("sim:EarliestBlockInMemory")
	w, L := t.w, t.L
	if t.zombie() {
		return 0, errors.New("sim: dead process")
	}
	self, _ := c29GoIDs()
	if self == L.startupGoid {
		return w.earliest, nil
	}
	rd := L.rounds[self]
	if rd == nil {
		w.seq++
		rd = &c29Round{id: len(L.roundList) + 1, startSeq: w.seq, earliest: w.earliest}
		// the epoch argument of this round: known exactly when only one UpdateEpoch is unmatched
		if len(L.pendingArgs) == 1 {
			rd.arg = L.pendingArgs[0]
		}
		if len(L.pendingArgs) > 0 {
			L.pendingArgs = L.pendingArgs[1:]
		}
		L.rounds[self] = rd
		L.roundList = append(L.roundList, rd)
		L.active++
		if L.active > 1 {
			w.r.Probe("overlapping_claim_rounds")
		}
		w.r.Logf("[%s] claim round R%d starts: chain epoch %d, earliest in memory %d, window %d", w.clock(), rd.id, w.cur, w.earliest, w.dist)
		return w.earliest, nil
	}
	if !rd.ended {
		rd.ended = true
		L.active--
		w.r.Logf("[%s] claim round R%d finished its claims", w.clock(), rd.id)
	}
	return w.earliest, nil
}

func (t *c29Tx) TxRelayPayment(ctx context.Context, relays []*pairingtypes.RelaySession, description string, latestBlocks []*pairingtypes.LatestBlockReport) error {
	w, L := t.w, t.L
	r := w.r
	if t.zombie() {
		return errors.New("sim: dead process")
	}
	self, parent := c29GoIDs()
	rd := L.rounds[parent]
	if rd == nil {
		rd = L.rounds[self]
	}
	if rd == nil {
		r.Probe("tx_call_not_linked_to_round")
	}
	L.nCalls++
	call := L.nCalls
	w.seq++
	recs := make([]*c29Proof, 0, len(relays))
	var sb strings.Builder
	for _, rs := range relays {
		rec := w.bySig[string(rs.Sig)]
		r.OracleEvals++
		if rec == nil || uint64(rs.Epoch) != rec.key.epoch || rs.SpecId != rec.key.spec || rs.SessionId != rec.key.sess || rs.CuSum != rec.cu {
			w.viol("claimed-unknown-or-altered-proof", "tx", fmt.Sprintf("TxRelayPayment carries a proof (epoch %d chain %s session %d cu %d) that no consumer ever signed in this form", rs.Epoch, rs.SpecId, rs.SessionId, rs.CuSum))
			return errors.New("sim: bad proof")
		}
		recs = append(recs, rec)
		fmt.Fprintf(&sb, " %s=%d", c29Short(rec.key), rec.cu)
	}
	rid := 0
	if rd != nil {
		rid = rd.id
	}
	r.Logf("[%s] tx#%d (round R%d) TxRelayPayment %d proofs:%s | chain epoch %d earliest %d", w.clock(), call, rid, len(recs), sb.String(), w.cur, w.earliest)
	for _, rec := range recs {
		w.checkSubmission(L, rec, rd)
		if w.dead {
			return errors.New("sim: stop")
		}
	}
	for _, rec := range recs {
		L.subs[rec].flying++
	}
	defer func() {
		for _, rec := range recs {
			L.subs[rec].flying--
		}
	}()
	// the transaction takes time
	lat := time.Duration(r.Draw("f.tx", 40)) * 50 * time.Millisecond
	if w.fault("f.tx", "tx_slow", w.fr.txSlow) {
		lat = w.epochDur/2 + time.Duration(r.Draw("f.tx", 100))*w.epochDur/100
	}
	simrt.Yield("sim:tx")
	if lat > 0 {
		time.Sleep(lat)
	}
	simrt.Resume("sim:tx")
	if t.zombie() {
		return errors.New("sim: dead process")
	}
	fail := w.fault("f.tx", "tx_fail", w.fr.txFail)
	pnc := !fail && w.fault("f.tx", "tx_panic", w.fr.txPanic)
	w.seq++
	if fail || pnc {
		for _, rec := range recs {
			st := L.subs[rec]
			st.failed++
			if st.failed >= 2 {
				r.Probe("tx_failure_then_retry")
			}
			if st.failed >= MaxPaymentRequestsRetiresForSession {
				w.exhausted[rec.key] = true
				r.Probe("retries_exhausted")
			}
			r.Op("claim", "failed")
		}
		// reachability of the retry map keyed by session id only
		seen := map[uint64]c29Key{}
		for _, rec := range recs {
			if k0, ok := seen[rec.key.sess]; ok && k0 != rec.key {
				r.Probe("failed_tx_with_two_keys_sharing_a_session_id")
			}
			seen[rec.key.sess] = rec.key
			if e, ok := L.rws.failedRewardsPaymentRequests[rec.key.sess]; ok {
				if other := w.bySig[string(e.relaySession.Sig)]; other != nil && other.key != rec.key {
					r.Probe("retry_map_entry_of_other_key_hit")
				}
			}
		}
		r.Logf("[%s] tx#%d -> FAILED (panic=%v)", w.clock(), call, pnc)
		if pnc {
			panic("simulated nil-pointer dereference during gas estimation")
		}
		return errors.New("sim: tx failed")
	}
	for _, rec := range recs {
		if rec.cu > L.okMax[rec.key] {
			L.okMax[rec.key] = rec.cu
		}
		if rec.cu > w.everOK[rec.key] {
			w.everOK[rec.key] = rec.cu
		}
		r.Op("claim", "ok")
	}
	if w.fault("f.tx", "payment_event_lost", w.fr.payLost) {
		r.Logf("[%s] tx#%d -> ok (its payment events will be missed)", w.clock(), call)
	} else {
		delay := time.Duration(r.Draw("f.tx", 60)) * 100 * time.Millisecond
		L.payQ = append(L.payQ, c29Pay{due: time.Now().Add(delay), desc: description, relays: append([]*pairingtypes.RelaySession(nil), relays...)})
		r.Logf("[%s] tx#%d -> ok (payment events in %v)", w.clock(), call, delay)
	}
	return nil
}

// checkSubmission: the oracles evaluated at the instant a proof is handed to TxRelayPayment.
func (w *c29World) checkSubmission(L *c29Life, rec *c29Proof, rd *c29Round) {
	r := w.r
	K := rec.key
	st := L.subs[rec]
	if st == nil {
		st = &c29Sub{}
		L.subs[rec] = st
	}
	st.n++
	if rec.cu > L.subMax[K] {
		L.subMax[K] = rec.cu
	}
	if L.sessKeys[K.sess] == nil {
		L.sessKeys[K.sess] = map[c29Key]bool{}
	}
	L.sessKeys[K.sess][K] = true
	if st.flying > 0 {
		st.concurrent = true
		r.Probe("same_proof_in_two_transactions_at_once")
	}
	flags := func() string {
		if st.concurrent {
			return "overlapping-claim-rounds"
		}
		if len(L.sessKeys[K.sess]) > 1 {
			return "session-id-shared-by-several-keys"
		}
		return "plain"
	}
	kind := "new-claim"
	if st.n > 1 {
		kind = "retry"
	}
	// (2) only after the epoch left the active window ...
	r.OracleEvals++
	if K.epoch+w.dist > w.cur {
		w.viol("claimed-inside-active-window", kind, fmt.Sprintf("proof %s submitted while the chain is at epoch %d: with a payment window of %d blocks epoch %d is still active until the chain reaches %d", rec, w.cur, w.dist, K.epoch, K.epoch+w.dist))
		return
	}
	// ... and before it leaves chain memory (value the chain reported to the claim round itself)
	if rd != nil {
		r.OracleEvals++
		if K.epoch < rd.earliest {
			w.viol("claimed-after-leaving-chain-memory", kind, fmt.Sprintf("proof %s submitted by claim round R%d although the chain told that round that its earliest epoch in memory is %d", rec, rd.id, rd.earliest))
			return
		}
	}
	// (1) the best proof received before the claim round started
	if st.n == 1 && rd != nil && !L.late[K] {
		need, src := L.restored[K], "restored from the DB at start-up"
		for _, q := range w.sent[K] {
			if q.life == L.idx && q.recvSeq > 0 && q.recvSeq < rd.startSeq && q.cu > need {
				need, src = q.cu, fmt.Sprintf("accepted by SendNewProof at #%d, before round R%d started at #%d", q.recvSeq, rd.id, rd.startSeq)
			}
		}
		r.OracleEvals++
		if rec.cu < need {
			sig := "received-in-this-lifetime"
			if need == L.restored[K] {
				sig = "restored-from-db"
			}
			w.viol("claimed-lower-than-best-received", sig, fmt.Sprintf("key %s: submitted CuSum %d but a proof with CuSum %d was %s", K, rec.cu, need, src))
			return
		}
	}
	// (3) once plus at most the configured number of retries, per process lifetime
	r.OracleEvals++
	if st.n > 1+MaxPaymentRequestsRetiresForSession {
		w.viol("too-many-submissions", flags(), fmt.Sprintf("proof %s submitted %d times in one process lifetime (limit 1 + MaxPaymentRequestsRetiresForSession = %d); %d of them failed so far", rec, st.n, 1+MaxPaymentRequestsRetiresForSession, st.failed))
		return
	}
	r.OracleEvals++
	if st.n >= 2 && st.failed == 0 {
		w.viol("resubmitted-without-failure", flags(), fmt.Sprintf("proof %s submitted a second time although no transaction carrying it has failed", rec))
		return
	}
	// (5) no claim of a key by a round that started after its payment was confirmed (and its DB
	// entry deleted by PaymentHandler) in this lifetime
	if paid := L.keyPaidSeq[K]; paid > 0 && rd != nil && rd.startSeq > paid && !L.late[K] {
		r.OracleEvals++
		w.viol("resubmitted-after-payment", flags(), fmt.Sprintf("key %s: proof cu=%d submitted by round R%d (started at #%d) after the payment of that key had been confirmed to PaymentHandler at #%d in the same process lifetime", K, rec.cu, rd.id, rd.startSeq, paid))
		return
	}
}

// ---------------------------------------------------------------------------------------------
// completed snapshots: what they must have left on the disk
//
// A snapshot that wrote nothing is invisible at the disk, so the harness derives from the server's
// own synchronisation that a snapshot run has started after a proof was stored and has returned:
//
//   - threshold: SendNewProof hands the trigger to the snapshot job over an unbuffered channel after
//     it stored the proof; the job is one goroutine (receive, run, receive ...). So when a later
//     SendNewProof whose call began after trigger T1 was consumed has its own trigger consumed, the run
//     started by T1 has returned, and that run took the server's read lock after T1's proof and every
//     proof accepted before T1's call began were in memory.
//   - period: every run re-arms the snapshot timer when it starts and takes no simulated time (nothing
//     sleeps while holding the server lock or inside the SimDisk), so run starts are never more than
//     the configured period apart; simulated time only advances when no task can run. Hence once the
//     clock is strictly past X + period, a run that started strictly after instant X has returned.
//
// Such a run, on a disk that acknowledged its writes and where nothing deleted the entry since, must
// have left for every key whose epoch is still inside the active window (no claim round can have
// gathered it, so it is unclaimed and still in memory) at least the best CuSum accepted before the run
// started: this is what "snapshotted" has to mean for the restart clause, and the proof kept must be
// the best one received. Narrow relaxation: a failed or torn batch (of any chain: RewardDB gives up the
// whole snapshot at the first failing chain) or a deletion of the key's entry at or after the point
// from which the run is known restarts the wait; it never excuses older data on an undisturbed disk.

// c29CompletedRun describes one snapshot run known to have returned.
type c29CompletedRun struct {
	how       string
	covered   func(q *c29Proof) bool // q was in memory before the run took the read lock
	disturbed func(K c29Key) bool    // a write fault / deletion may have undone or prevented the run's write of K
	because   string
}

func (w *c29World) checkCompletedSnapshot(L *c29Life, run c29CompletedRun) {
	if w.badger || w.dead || w.life != L {
		return
	}
	r := w.r
	now := w.now()
	for _, K := range w.keys {
		if K.epoch+w.dist <= w.cur {
			continue // a claim round may have gathered it (memory and disk entries are gone by design)
		}
		var best, first *c29Proof
		for _, q := range w.sent[K] {
			if q.life != L.idx || q.recvSeq == 0 {
				continue
			}
			if first == nil || q.recvSeq < first.recvSeq {
				first = q
			}
			if run.covered(q) && (best == nil || q.cu > best.cu) {
				best = q
			}
		}
		if best == nil {
			continue
		}
		if run.disturbed(K) {
			r.Probe("completed_snapshot_check_waived_after_disk_disturbance")
			continue
		}
		st := w.disk[K.spec]
		var have uint64
		state := "absent-on-disk"
		if dk, ok := st.keyOf[K]; ok {
			if e, ok := st.data[dk]; ok && e.expire > now {
				if rec := w.decode(e.data); rec != nil && rec.key == K {
					have = rec.cu
					state = "lower-on-disk"
				}
			}
		}
		r.OracleEvals++
		r.Probe("completed_snapshot_checked_" + strings.ReplaceAll(run.how, "-", "_"))
		if best != first && L.restored[K] < best.cu {
			r.Probe("inplace_improvement_checked_after_completed_snapshot")
		}
		if have < best.cu {
			w.viol("completed-snapshot-left-stale-proof-on-disk", run.how+":"+state, fmt.Sprintf("key %s: SendNewProof accepted CuSum %d at #%d; %s; no write to the disk failed and nothing deleted the key's entry since then, its epoch is still active (chain at %d, window %d) so it is unclaimed and in memory, yet the disk of chain %s holds CuSum %d for it (0 = absent): a crash now restores and claims less than the best proof received although a snapshot has run since", K, best.cu, best.recvSeq, run.because, w.cur, w.dist, K.spec, have))
			return
		}
	}
}

// thresholdTriggerConsumed: SendNewProof of t2 (relay number on the snapshot threshold) returned.
func (w *c29World) thresholdTriggerConsumed(L *c29Life, t2 *c29Proof) {
	var t1 *c29Proof
	for _, t := range L.trigs {
		if t.recvSeq < t2.sentSeq && (t1 == nil || t.sentSeq > t1.sentSeq) {
			t1 = t
		}
	}
	L.trigs = append(L.trigs, t2)
	if t1 == nil {
		return
	}
	w.checkCompletedSnapshot(L, c29CompletedRun{
		how:     "next-threshold-trigger-consumed",
		covered: func(q *c29Proof) bool { return q == t1 || q.recvSeq < t1.sentSeq },
		disturbed: func(K c29Key) bool {
			if L.writeFault && L.writeFaultSeq >= t1.sentSeq {
				return true
			}
			s, ok := L.removedSeq[K]
			return ok && s >= t1.sentSeq
		},
		because: fmt.Sprintf("the SendNewProof call #%d..#%d (%s cu=%d, relay number on the snapshot threshold %d) handed a trigger to the snapshot job after that, and the job has since come back for the trigger of the call #%d..#%d, so the run in between has returned", t1.sentSeq, t1.recvSeq, c29Short(t1.key), t1.cu, w.threshold, t2.sentSeq, t2.recvSeq),
	})
}

// snapshotPeriodElapsed is evaluated at harness instants (every simulated second, and at the crash).
func (w *c29World) snapshotPeriodElapsed(L *c29Life) {
	now := w.now()
	period := int64(time.Duration(w.snapSec) * time.Second)
	w.checkCompletedSnapshot(L, c29CompletedRun{
		how:     "snapshot-period-elapsed",
		covered: func(q *c29Proof) bool { return q.recvAt+period < now },
		disturbed: func(K c29Key) bool {
			if L.writeFault && L.writeFaultAt+period >= now {
				return true
			}
			at, ok := L.removedAt[K]
			return ok && at+period >= now
		},
		because: fmt.Sprintf("more than the snapshot period of %ds has passed on the simulated clock since then (and since the last failed write / deletion of the entry, if any), so a timer snapshot has started after it and returned", w.snapSec),
	})
}

// ---------------------------------------------------------------------------------------------
// harness tasks

func (w *c29World) sleep(site string, d time.Duration) {
	simrt.Yield(site)
	if d > 0 {
		time.Sleep(d)
	}
	simrt.Resume(site)
}

// startup does what RewardServer.AddDataBase does for every served chain (same lock, same order:
// AddDB then restoreRewardsFromDB), with NewLocalDB (Badger on disk) replaced by the SimDisk handle.
func (w *c29World) startup(L *c29Life, rdb *RewardDB) {
	r := w.r
	L.startupGoid, _ = c29GoIDs()
	for _, spec := range w.specs {
		simrt.Yield("harness:startup")
		if w.dead {
			return
		}
		var db DB
		if w.badger {
			db = NewMemoryDB(spec)
		} else {
			db = &c29Disk{w: w, st: w.disk[spec], life: L.idx}
		}
		simrt.Lock(L.rws.lock.Lock, L.rws.lock.TryLock, "harness:AddDataBase")
		var err error
		if !rdb.DBExists(spec) {
			rdb.AddDB(db)
			L.restoring = spec
			err = L.rws.restoreRewardsFromDB(spec)
			L.restoring = ""
		}
		n := 0
		for _, er := range L.rws.rewards {
			for _, cr := range er.consumerRewards {
				n += len(cr.proofs)
			}
		}
		simrt.Unlock(L.rws.lock.Unlock)
		w.seq++
		L.restoreSeq[spec] = w.seq
		L.serving = append(L.serving, spec)
		r.Op("restore", c29Err(err))
		r.Logf("[%s] start-up: DB of chain %s attached, restore -> %s; proofs in memory now %d", w.clock(), spec, c29Err(err), n)
	}
}

func (w *c29World) producer(L *c29Life, pi int, n int) {
	r := w.r
	stream := fmt.Sprintf("p%d", pi)
	name := fmt.Sprintf("P%d", pi)
	ctx := context.Background()
	for i := 0; i < n; i++ {
		think := time.Duration(r.Draw(stream, 40)) * 50 * time.Millisecond
		if w.burst {
			think = time.Duration(r.Draw(stream, 3)) * 50 * time.Millisecond // many sends at the same instant
		}
		w.sleep("harness:producer", think)
		if !L.loadOpen || w.dead {
			return
		}
		if len(L.serving) == 0 {
			continue
		}
		r.Step()
		spec := L.serving[r.Draw(stream, len(L.serving))]
		ci := r.Draw(stream, len(w.cons))
		// an epoch that is still inside the active window right now (the session manager rejects others)
		e := w.cur
		for back := r.Draw(stream, 3); back > 0; back-- {
			if e >= 2*w.epochSize && e-w.epochSize+w.dist > w.cur {
				e -= w.epochSize
			}
		}
		var sess uint64
		if w.sessIDs != nil {
			sess = w.sessIDs[r.Draw(stream, len(w.sessIDs))]
		} else {
			si := 0
			for i, sp := range w.specs {
				if sp == spec {
					si = i
				}
			}
			sess = simrt.Mix(0xC29, uint64(ci), uint64(si), e, uint64(r.Draw(stream, 3)))>>1 | 1<<32
		}
		K := c29Key{epoch: e, cons: ci, spec: spec, sess: sess}
		hi := w.hiSent[K]
		var cu uint64
		switch r.Draw(stream, 6) {
		case 4:
			cu = 1 + uint64(r.Draw(stream, int(hi)+1)) // not above what was already sent (maybe equal)
			if cu > hi && hi > 0 {
				cu = hi
			}
		case 5:
			cu = hi // exactly equal (or first proof with the minimum)
			if cu == 0 {
				cu = 1
			}
		default:
			cu = hi + 1 + uint64(r.Draw(stream, 40))
		}
		rn := w.relayNum[K] + 1 + uint64(r.Draw(stream, 2))
		w.relayNum[K] = rn
		p := &pairingtypes.RelaySession{SpecId: spec, ContentHash: []byte{}, SessionId: sess, CuSum: cu, Provider: "lava@provider", RelayNum: rn, Epoch: int64(e), LavaChainId: "lava-sim"}
		sig, err := sigs.Sign(w.cons[ci].acc.SK, *p)
		if err != nil {
			panic(err)
		}
		p.Sig = sig
		if _, dup := w.bySig[string(sig)]; dup {
			continue // byte-identical proof (same key, cu and relay number): nothing new to send
		}
		rec := &c29Proof{key: K, cu: cu, relayNum: rn, life: L.idx, p: p}
		if _, ok := w.sent[K]; !ok {
			w.keys = append(w.keys, K)
		}
		var bestRecv uint64
		for _, q := range w.sent[K] {
			if q.life == L.idx && q.recvSeq > 0 && q.cu > bestRecv {
				bestRecv = q.cu
			}
		}
		w.sent[K] = append(w.sent[K], rec)
		w.bySig[string(sig)] = rec
		if cu > hi {
			w.hiSent[K] = cu
		}
		if bestRecv > cu {
			r.Probe("lower_cu_after_higher")
		}
		w.seq++
		rec.sentSeq = w.seq
		trig := rn%uint64(w.threshold) == 0
		if trig {
			L.trigSinceSnap++
		}
		L.inFlight[K]++
		if L.inFlight[K] > 1 {
			r.Probe("concurrent_send_same_key")
		}
		existing, updated := L.rws.SendNewProof(ctx, p, e, w.cons[ci].addr, "rest")
		L.inFlight[K]--
		if w.dead || w.life != L {
			return
		}
		w.seq++
		rec.recvSeq = w.seq
		rec.recvAt = w.now()
		if K.epoch+w.dist <= w.cur {
			// the chain moved on while this call was in flight (relay served across an epoch change): the
			// proof may have been stored after its epoch was gathered for claim. Such keys are exempt
			// from the oracles that assume "no proof after the claim" (see Assume).
			L.late[K] = true
			r.Probe("proof_in_flight_while_its_epoch_left_the_window")
		}
		if trig {
			r.Probe("snapshot_by_threshold")
			w.thresholdTriggerConsumed(L, rec)
			if w.dead {
				return
			}
		}
		if updated {
			r.Op("proof", "ok")
		} else {
			r.Op("proof", "not_higher")
		}
		r.Logf("[%s] %s SendNewProof %s cu=%d relay#%d -> existingCU=%d updated=%v", w.clock(), name, c29Short(K), cu, rn, existing, updated)
	}
}

func (w *c29World) advanceChain(epochs uint64) {
	w.cur += epochs * w.epochSize
	if w.cur > w.memBlocks && w.cur-w.memBlocks > w.earliest {
		w.earliest = w.cur - w.memBlocks
	}
}

func (w *c29World) epochTask(L *c29Life, nEpochs, loadEpochs int) {
	r := w.r
	for i := 0; i < nEpochs; i++ {
		jitter := time.Duration(r.Draw("epoch", 21)) * w.epochDur / 100
		w.sleep("harness:epoch", w.epochDur*9/10+jitter)
		if w.dead {
			return
		}
		if i >= loadEpochs {
			L.loadOpen = false
		}
		jump := uint64(1)
		if w.fault("f.chain", "epoch_jump", w.fr.epochJump) {
			jump = 2 + uint64(r.Draw("f.chain", 4))
		}
		w.advanceChain(jump)
		w.seq++
		if w.fault("f.chain", "epoch_update_missed", w.fr.epochSkip) {
			r.Logf("[%s] chain: epoch %d (earliest %d) - epoch update missed by the provider", w.clock(), w.cur, w.earliest)
			continue
		}
		r.Logf("[%s] chain: epoch %d (earliest %d) -> UpdateEpoch", w.clock(), w.cur, w.earliest)
		L.pendingArgs = append(L.pendingArgs, w.cur)
		L.rws.UpdateEpoch(w.cur)
		r.Op("epoch", "ok")
	}
	L.loadOpen = false
	L.epochDone = true
}

func (w *c29World) paymentsTask(L *c29Life) {
	tail := 0
	for {
		w.sleep("harness:payments", time.Second)
		if w.dead {
			return
		}
		w.snapshotPeriodElapsed(L)
		if w.dead {
			return
		}
		now := time.Now()
		var rest []c29Pay
		q := L.payQ
		L.payQ = nil
		for _, pay := range q {
			if pay.due.After(now) {
				rest = append(rest, pay)
				continue
			}
			w.deliver(L, pay)
			if w.dead {
				return
			}
		}
		L.payQ = append(rest, L.payQ...)
		if L.epochDone {
			tail++
			// payments keep flowing for 1.5 epochs after the last epoch update
			if time.Duration(tail)*time.Second > w.epochDur*3/2 && len(L.payQ) == 0 {
				return
			}
			if tail > 200 {
				return
			}
		}
	}
}

// deliver builds the relay_payment event the way the chain does (x/pairing relay payment: one
// attribute set per relay, suffixed with its index), parses it with the production parser and feeds
// the provider's payment handler.
func (w *c29World) deliver(L *c29Life, pay c29Pay) {
	r := w.r
	var attrs []terderminttypes.EventAttribute
	desc := pay.desc
	if len(desc) > 20 {
		desc = desc[:20]
	}
	for i, rs := range pay.relays {
		rec := w.bySig[string(rs.Sig)]
		kv := [][2]string{
			{"CU", strconv.FormatUint(rs.CuSum, 10)},
			{"Mint", "0ulava"},
			{"chainID", rs.SpecId},
			{"client", w.cons[rec.key.cons].addr},
			{"descriptionString", desc},
			{"epoch", strconv.FormatInt(rs.Epoch, 10)},
			{"provider", "lava@provider"},
			{"relayNumber", strconv.FormatUint(rs.RelayNum, 10)},
			{"uniqueIdentifier", strconv.FormatUint(rs.SessionId, 10)},
		}
		for _, p := range kv {
			attrs = append(attrs, terderminttypes.EventAttribute{Key: p[0] + "." + strconv.Itoa(i), Value: p[1]})
		}
	}
	event := terderminttypes.Event{Type: utils.EventPrefix + pairingtypes.RelayPaymentEventName, Attributes: attrs}
	payments, err := BuildPaymentFromRelayPaymentEvent(event, int64(w.cur)+1)
	if err != nil || len(payments) != len(pay.relays) {
		w.viol("harness-payment-event", "build", fmt.Sprintf("BuildPaymentFromRelayPaymentEvent: %v (%d payments for %d relays)", err, len(payments), len(pay.relays)))
		return
	}
	for i, p := range payments {
		rec := w.bySig[string(pay.relays[i].Sig)]
		if p.Description != L.rws.Description() {
			// state tracker routes payments by description: another (earlier) process' claim
			r.Probe("payment_of_previous_process_ignored")
			continue
		}
		K := rec.key
		w.seq++
		w.paid[K] = true
		delete(w.durable, K)
		w.paying = &K
		r.Logf("[%s] payment event for %s cu=%d -> PaymentHandler", w.clock(), c29Short(K), p.CU)
		L.rws.PaymentHandler(p)
		w.paying = nil
		w.seq++
		if L.keyPaidSeq[K] == 0 {
			L.keyPaidSeq[K] = w.seq
		}
		r.Op("payment", "ok")
		if w.dead {
			return
		}
	}
}

// ---------------------------------------------------------------------------------------------
// the run

func c29NewWorld(r *simrt.Run) *c29World {
	w := &c29World{r: r, profile: r.Profile,
		disk: map[string]*c29Store{}, sent: map[c29Key][]*c29Proof{}, bySig: map[string]*c29Proof{},
		hiSent: map[c29Key]uint64{}, relayNum: map[c29Key]uint64{}, durable: map[c29Key]uint64{},
		paid: map[c29Key]bool{}, everOK: map[c29Key]uint64{}, exhausted: map[c29Key]bool{},
		required: map[c29Key]uint64{}, reqWhy: map[c29Key]string{}}
	simrt.SetMapOrder(1+r.Draw("cfg", 3), r.Draw64("cfg"))
	w.epochSize = uint64(10 * (1 + r.Draw("cfg", 2)))
	w.dist = w.epochSize * uint64(1+r.Draw("cfg", 3))
	w.memBlocks = w.dist + w.epochSize*uint64(1+r.Draw("cfg", 9))
	if r.Draw("cfg", 3) == 0 {
		w.cur = w.epochSize * uint64(1+r.Draw("cfg", 2)) // young chain: epochs 10, 20, ... 100, ... 200
	} else {
		w.cur = w.epochSize * uint64(900+r.Draw("cfg", 200))
	}
	if w.cur > w.memBlocks {
		w.earliest = w.cur - w.memBlocks
	}
	w.epochDur = time.Duration(6+r.Draw("cfg", 10)) * time.Second
	w.threshold = []uint{1, 2, 3, 5, 1000}[r.Draw("cfg", 5)]
	w.snapSec = []uint{1, 2, 5, 15, 30}[r.Draw("cfg", 5)]
	w.specs = []string{"LAV1", "ETH1"}[:1+r.Draw("cfg", 2)]
	w.burst = r.Draw("cfg", 3) == 2
	nCons := 1 + r.Draw("cfg", 3)
	zr := sigs.NewZeroReader(29)
	w.sessMode = r.Draw("cfg", 4)
	for i := 0; i < nCons; i++ {
		acc := sigs.GenerateDeterministicFloatingKey(zr)
		w.cons = append(w.cons, c29Consumer{acc: acc, addr: acc.Addr.String()})
	}
	switch w.sessMode {
	case 2: // short ids chosen by the consumers, shared by all of them: 1 is a decimal prefix of 10 and 100
		w.sessIDs = []uint64{1, 10, 100}
	case 3: // short and long ids, reused by a consumer across chains and epochs
		w.sessIDs = []uint64{1, 10, 7, 4611686018427387904, 461168601842738790}
	default: // what lavasession consumers do: a fresh random 63-bit id per (consumer, chain, epoch, session)
		w.sessIDs = nil
	}
	for _, s := range w.specs {
		w.disk[s] = &c29Store{spec: s, data: map[string]c29Entry{}, keyOf: map[c29Key]string{}, deletedBy: map[string]string{}}
	}
	w.nLives = 1
	switch w.profile {
	case "clean":
	case "badger":
		w.badger = true
		w.specs = w.specs[:1]
	case "faults", "crash":
		w.fr.txFail = [2]int{[]int{1, 4, 7}[r.Draw("cfg", 3)], 8}
		w.fr.txPanic = [2]int{1, 40}
		w.fr.txSlow = [2]int{r.Draw("cfg", 2), 12}
		w.fr.dbBatchFail = [2]int{1, 8}
		w.fr.dbTorn = [2]int{1, 8}
		w.fr.dbDelFail = [2]int{1, 8}
		w.fr.dbFindFail = [2]int{1, 12}
		w.fr.epochSkip = [2]int{r.Draw("cfg", 2), 8}
		w.fr.epochJump = [2]int{r.Draw("cfg", 2), 10}
		w.fr.payLost = [2]int{r.Draw("cfg", 2), 6}
		if w.profile == "crash" {
			w.nLives = 2 + r.Draw("cfg", 2)
			w.adaptiveCrash = r.Draw("cfg", 2) == 1
		}
	case "young":
		// directed at RewardDB.DeleteEpochRewards (bare decimal epoch as key prefix): a chain so young
		// that epoch e (10 or 20) is still in chain memory when epoch 10e (100 or 200) is served, a
		// crash before e is claimed, a restart near 10e. Honest session ids, few other faults.
		w.young = true
		w.sessIDs = nil
		w.cur = w.epochSize
		w.earliest = 0
		w.memBlocks = w.dist + w.epochSize*uint64(5+r.Draw("cfg", 5))
		w.fr.txFail = [2]int{1, 8}
		w.fr.dbBatchFail = [2]int{1, 16}
		w.fr.epochSkip = [2]int{r.Draw("cfg", 2), 8}
		w.nLives = 3
		w.adaptiveCrash = true
	}
	r.Logf("config: profile=%s epochSize=%d window=%d memory=%d blocks, chain starts at epoch %d (earliest %d), epoch lasts %v, snapshot threshold=%d timer=%ds, chains=%v, consumers=%d, session ids=%v (nil: fresh random id per consumer/chain/epoch), lifetimes=%d adaptiveCrash=%v",
		w.profile, w.epochSize, w.dist, w.memBlocks, w.cur, w.earliest, w.epochDur, w.threshold, w.snapSec, w.specs, nCons, w.sessIDs, w.nLives, w.adaptiveCrash)
	return w
}

var c29Init bool

func runC29(r *simrt.Run) {
	if !c29Init {
		c29Init = true
		rand.InitRandomSeed()
		utils.SetGlobalLoggingLevel("fatal")
	}
	w := c29NewWorld(r)
	for li := 0; li < w.nLives; li++ {
		final := li == w.nLives-1
		inBubble(r, func(s *simrt.Sched) { w.runLife(s, li, final) })
		if r.Violated() != nil || w.dead {
			return
		}
		if !final {
			// the process stays down for a while
			down := uint64(r.Draw("f.crash", 7))
			if w.young && li == 0 {
				// come back shortly before / at epoch 10 x (first epoch)
				if target := w.epochSize * uint64(10-r.Draw("f.crash", 3)); target > w.cur {
					down = (target - w.cur) / w.epochSize
				}
			}
			w.advanceChain(down)
			w.simBase += int64(time.Duration(down) * w.epochDur)
			r.Logf("---- process down for %d epochs; chain now at epoch %d (earliest %d) ----", down, w.cur, w.earliest)
		}
	}
}

func (w *c29World) runLife(s *simrt.Sched, li int, final bool) {
	r := w.r
	L := &c29Life{idx: li, start: time.Now(), restoreSeq: map[string]int{}, findAllFailed: map[string]bool{}, restored: map[c29Key]uint64{},
		rounds: map[int64]*c29Round{}, subs: map[*c29Proof]*c29Sub{}, keyPaidSeq: map[c29Key]int{}, okMax: map[c29Key]uint64{}, subMax: map[c29Key]uint64{},
		sessKeys: map[uint64]map[c29Key]bool{}, inFlight: map[c29Key]int{}, late: map[c29Key]bool{}, loadOpen: true,
		removedSeq: map[c29Key]int{}, removedAt: map[c29Key]int64{}}
	w.life = L
	w.crashReq = false
	tx := &c29Tx{w: w, L: L}
	rdb := NewRewardDBWithTTL(DefaultRewardTTL)
	L.rws = NewRewardServer(tx, nil, rdb, "sim-storage", w.threshold, w.snapSec, tx)
	r.Logf("==== process lifetime %d starts: chain epoch %d, earliest %d ====", li, w.cur, w.earliest)

	quick := r.Tier != "thorough"
	loadEpochs := 2 + r.Draw("cfg", 4)
	nProd := 1 + r.Draw("cfg", 4)
	per := 3 + r.Draw("cfg", 10)
	if !quick {
		loadEpochs = 2 + r.Draw("cfg", 8)
		per = 4 + r.Draw("cfg", 30)
	}
	if li > 0 {
		loadEpochs = r.Draw("cfg", 3)
	}
	if w.young {
		loadEpochs = 1 + r.Draw("cfg", 3)
	}
	if w.badger {
		// every payment makes Badger's DropPrefix allocate a fresh 64 MB memtable: keep these runs small
		loadEpochs, nProd, per = 1+r.Draw("cfg", 2), 1+r.Draw("cfg", 2), 2+r.Draw("cfg", 3)
	}
	// after the load: enough epochs for every epoch to leave the window and for all retries
	tailEpochs := int(w.dist/w.epochSize) + MaxPaymentRequestsRetiresForSession + 2
	if !final {
		tailEpochs = r.Draw("cfg", tailEpochs+1)
	}
	nEpochs := loadEpochs + tailEpochs
	s.Go("startup", true, func() { w.startup(L, rdb) })
	if loadEpochs > 0 {
		for i := 0; i < nProd; i++ {
			i := i
			s.Go(fmt.Sprintf("P%d", i), true, func() { w.producer(L, i, per) })
		}
	}
	s.Go("epoch", true, func() { w.epochTask(L, nEpochs, loadEpochs) })
	s.Go("payments", true, func() { w.paymentsTask(L) })

	crashAt := 0
	if w.young && li == 0 {
		crashAt = 1 + r.Draw("f.crash", 300) // before the first epoch can be claimed
	} else if !final {
		switch r.Draw("f.crash", 5) {
		case 1:
			crashAt = 1 + r.Draw("f.crash", 100)
		case 2:
			crashAt = 100 + r.Draw("f.crash", 400)
		case 3:
			crashAt = 500 + r.Draw("f.crash", 1500)
		case 4:
			crashAt = 2000 + r.Draw("f.crash", 6000)
		}
	}
	deadline := time.Now().Add(time.Duration(nEpochs+4) * w.epochDur * 2)
	steps := 0
	crashed := false
	for {
		s.Run(time.Until(deadline), 1)
		steps++
		if r.Violated() != nil || w.dead {
			r.SimSpan += int64(time.Since(L.start))
			return
		}
		if s.Quiescent || s.HorizonHit {
			break
		}
		if !final && ((crashAt > 0 && steps >= crashAt) || w.crashReq) {
			crashed = true
			break
		}
	}
	if !s.Quiescent && !crashed {
		r.Probe("not_quiescent")
		r.Logf("lifetime %d ended without quiescence: leftover=%v", li, s.Leftover())
		r.SimSpan += int64(time.Since(L.start))
		w.dead = true
		return
	}
	if !final {
		// the process dies here: nothing but the disk survives
		r.Fault("crash")
		w.disrupted = true
		if crashed {
			r.Logf("[%s] ==== CRASH after %d scheduling points (adaptive=%v) ====", w.clock(), steps, w.crashReq)
		} else {
			r.Logf("[%s] ==== process killed while idle ====", w.clock())
		}
		w.atCrash(L)
		w.simBase += int64(time.Since(L.start))
		r.SimSpan += int64(time.Since(L.start))
		return
	}
	// let the last claim rounds finish
	s.Drain(2*w.epochDur, 200000)
	r.SimSpan += int64(time.Since(L.start))
	if r.Violated() != nil || w.dead {
		return
	}
	w.finalChecks(L)
	if w.badger {
		rdb.Close()
	}
}

func (w *c29World) sortedKeys(m map[c29Key]uint64) []c29Key {
	ks := make([]c29Key, 0, len(m))
	for k := range m {
		ks = append(ks, k)
	}
	sort.Slice(ks, func(i, j int) bool { return c29KeyLess(ks[i], ks[j]) })
	return ks
}

// atCrash fixes what the statement promises for the next lifetime: proofs in an acknowledged
// snapshot that were not claimed successfully, not paid, and not given up after the configured
// retries.
func (w *c29World) atCrash(L *c29Life) {
	r := w.r
	// the last instant of this lifetime: what completed snapshots had to leave on the disk
	w.snapshotPeriodElapsed(L)
	if w.dead {
		return
	}
	w.required = map[c29Key]uint64{}
	w.reqWhy = map[c29Key]string{}
	now := w.now()
	for _, K := range w.sortedKeys(w.durable) {
		cu := w.durable[K]
		if w.paid[K] || w.everOK[K] >= cu || w.exhausted[K] {
			continue
		}
		w.required[K] = cu
		st := w.disk[K.spec]
		why := "on-disk-at-crash"
		dk := st.keyOf[K]
		if e, ok := st.data[dk]; !ok || e.expire <= now {
			why = "not-on-disk-at-crash:" + st.deletedBy[dk]
		} else if rec := w.decode(e.data); rec == nil || rec.cu < cu {
			why = "lower-on-disk-at-crash"
		}
		w.reqWhy[K] = why
		r.Logf("   durable & unclaimed at the crash: %s cu=%d [%s]", c29Short(K), cu, why)
	}
	if len(w.required) > 0 {
		r.Probe("crash_after_snapshot")
	}
	for _, K := range w.keys {
		var best uint64
		for _, q := range w.sent[K] {
			if q.life == L.idx && q.recvSeq > 0 && q.cu > best {
				best = q.cu
			}
		}
		if best > 0 && L.subMax[K] == 0 && best > w.durable[K] {
			r.Probe("crash_with_unsnapshotted_proofs")
			break
		}
	}
	for _, sp := range w.specs {
		r.Logf("   disk %s at the crash: %s", sp, w.diskDigest(sp))
	}
}

func (w *c29World) diskDigest(spec string) string {
	st := w.disk[spec]
	var sb strings.Builder
	n := 0
	for _, k := range c29SortedKeys(st.data) {
		if rec := w.decode(st.data[k].data); rec != nil {
			if n < 24 {
				fmt.Fprintf(&sb, " %s=%d", c29Short(rec.key), rec.cu)
			}
			n++
		}
	}
	return fmt.Sprintf("%d entries:%s", n, sb.String())
}

// eligible: some claim round of this lifetime, finished, with a known epoch argument, had to gather the key.
func (w *c29World) eligible(L *c29Life, K c29Key, afterSeq int) *c29Round {
	for _, rd := range L.roundList {
		if rd.ended && rd.arg > 0 && rd.arg >= K.epoch+w.dist && K.epoch >= rd.earliest && rd.startSeq > afterSeq {
			return rd
		}
	}
	return nil
}

func (w *c29World) finalChecks(L *c29Life) {
	r := w.r
	for _, rd := range L.roundList {
		if !rd.ended {
			r.Probe("claim_round_not_finished_at_end")
			r.Logf("final: claim round R%d never finished; end-of-run oracles skipped", rd.id)
			return
		}
	}
	if w.badger {
		if all, err := L.rws.rewardDB.FindAll(); err == nil {
			n := 0
			for _, er := range all {
				for _, cr := range er.consumerRewards {
					n += len(cr.proofs)
				}
			}
			r.Logf("final: badger holds %d proofs", n)
		}
	} else {
		for _, sp := range w.specs {
			r.Logf("final: disk %s: %s", sp, w.diskDigest(sp))
		}
	}
	// (4) durable unclaimed proofs of the previous lifetime are claimed after the restart
	if L.idx > 0 {
		for _, K := range w.sortedKeys(w.required) {
			cu := w.required[K]
			if L.findAllFailed[K.spec] {
				r.Probe("restore_read_failed")
				continue
			}
			rd := w.eligible(L, K, L.restoreSeq[K.spec])
			if rd == nil {
				if K.epoch < w.earliest {
					r.Probe("epoch_left_memory_before_claim")
				}
				continue
			}
			r.OracleEvals++
			r.Probe("durable_proof_checked_after_restart")
			if L.subMax[K] < cu {
				w.viol("snapshotted-proof-not-claimed-after-restart", w.reqWhy[K], fmt.Sprintf("key %s: a proof with CuSum %d was in an acknowledged snapshot before the crash, was never claimed successfully, paid or given up; after the restart claim round R%d (epoch argument %d, earliest in memory %d) had to claim it, but the highest CuSum submitted for the key in the new lifetime is %d [%s]", K, cu, rd.id, rd.arg, rd.earliest, L.subMax[K], w.reqWhy[K]))
				return
			}
		}
	}
	// epochs that left chain memory unclaimed (probe only)
	for _, K := range w.keys {
		if K.epoch < w.earliest && w.everOK[K] == 0 && L.subMax[K] == 0 {
			r.Probe("epoch_left_memory_before_claim")
			break
		}
	}
	// (7) nothing went wrong in this run: every best proof must have been claimed
	if !w.disrupted {
		for _, K := range w.keys {
			var best uint64
			for _, q := range w.sent[K] {
				if q.recvSeq > 0 && q.cu > best {
					best = q.cu
				}
			}
			if best == 0 || L.late[K] {
				continue
			}
			rd := w.eligible(L, K, 0)
			if rd == nil {
				r.Probe("key_not_eligible_in_fault_free_run")
				continue
			}
			r.OracleEvals++
			if L.okMax[K] != best {
				w.viol("best-proof-never-claimed", "fault-free", fmt.Sprintf("key %s: best CuSum accepted by SendNewProof is %d, claim round R%d (epoch argument %d) had to claim it, no fault was injected, but the highest CuSum claimed successfully is %d", K, best, rd.id, rd.arg, L.okMax[K]))
				return
			}
		}
		r.Probe("fault_free_run_fully_checked")
	}
}

func init() {
	// 67 slots (prime: every worker, whatever the stride, cycles through all of them): 1 run in 67
	// uses the real in-memory Badger (slow: see runLife), 8 the directed young-chain profile
	var profiles []string
	for i := 0; i < 67; i++ {
		profiles = append(profiles, []string{"clean", "faults", "crash", "crash", "faults", "crash", "clean", "crash"}[i%8])
	}
	profiles[20] = "badger"
	for i := 5; i < 67; i += 8 {
		profiles[i] = "young"
	}
	simrt.Register("C29", &simrt.PropSpec{Fn: runC29, Profiles: profiles,
		NonTrivial: func(r *simrt.Run) bool {
			return r.Ops["proof:ok"] >= 3 && r.Ops["claim:ok"]+r.Ops["claim:failed"] >= 1 && r.Switches >= 50
		},
		Rule:    "One run = 1-3 process lifetimes of the real RewardServer+RewardDB, each inside its own synctest bubble under the token-passing scheduler (every lock, atomic, channel op, select, WaitGroup.Wait, sleep and `go` of the instrumented rewardserver package is a scheduling point; every map range is ordered by the simulator: sorted / reversed / shuffled per run). Tasks: 1-4 proof producers (SendNewProof for 1-3 consumers x 1-2 chains x the epochs still inside the active window; CuSum increasing, equal and decreasing; relay numbers that hit the snapshot threshold; session ids either fresh random 63-bit per consumer/chain/epoch as lavasession consumers make them, or short ids 1/10/100/7 shared by consumers, chains and epochs), an epoch task (simulated chain advances, young chain starting at epoch 10/20 or mature chain, UpdateEpoch per epoch), a payment task (relay_payment events built like x/pairing emits them, parsed by BuildPaymentFromRelayPaymentEvent, fed to PaymentHandler), the start-up task (AddDB + restoreRewardsFromDB per chain under the server lock), the server's own snapshot job and claim rounds. Profiles: clean (no fault at all; every best proof must be claimed), faults (tx failure 1/8..7/8, tx panic, tx slower than an epoch, DB write failure, torn batch, DB delete / read failure, missed epoch updates, multi-epoch jumps, lost payment events), crash (faults + 1-2 crashes at a tape-chosen scheduling point or, adaptively, right after an unclaimed durable proof vanished from the disk; downtime 0-6 epochs; restart over the SimDisk content), badger (clean, on the real in-memory Badger). Non-trivial = >=3 accepted proofs, >=1 claim transaction, >=50 context switches; distinct = (op,outcome,fault) sequence x context-switch sequence",
		Real:    []string{"protocol/rpcprovider/rewardserver RewardServer: SendNewProof/saveProofInMemory, UpdateEpoch -> runRewardServerEpochUpdate -> sendRewardsClaim/gatherRewardsForClaim/gatherFailedRequestPaymentsToRetry/updatePaymentRequestAttempt, PaymentHandler, snapshot job (timer + threshold), restoreRewardsFromDB, BuildPaymentFromRelayPaymentEvent (instrumented copies through the build overlay)", "RewardDB (key assembly, BatchSave, FindAllInDB, DeleteClaimedRewards, DeleteEpochRewards)", "BadgerDB on in-memory Badger (profile badger only)", "utils/sigs signing and signer recovery of every proof (deterministic consumer keys)", "goccy/go-json encoding of the stored proofs", "timers / context deadlines on the synctest fake clock"},
		Stubbed: []string{"RewardsTxSender + ChainTrackerSpecsInf: simulated lava chain (epoch, earliest epoch in memory, payment window = GetEpochSizeMultipliedByRecommendedEpochNumToCollectPayment), TxRelayPayment records every call and fails / panics / is slow by tape", "rewardserver.DB: SimDisk (acknowledged writes durable, write failure, torn batch, delete and read failure), survives crashes", "relay server (producer tasks calling SendNewProof like RPCProviderServer.SendProof)", "state tracker: epoch updates and payment events (routed by description like PaymentUpdater)", "process crash = the bubble of that lifetime ends, nothing but SimDisk and the chain survives", "provider metrics = nil"},
		Assume:  []string{"code between two instrumented synchronisation points is atomic in the simulation (every simulated schedule is a real one, not vice versa): a data race without any lock is invisible", "GetEpochSize reports 1 so that the crypto/rand claim delay of AddRewardDelayForUnifiedRewardDistribution is always 0 (runs stay a function of the tape)", "start-up uses AddDB + restoreRewardsFromDB under the server lock exactly like AddDataBase, whose hard-wired NewLocalDB (Badger on disk) is replaced by the SimDisk handle", "a proof is handed to SendNewProof only while its epoch is inside the active window (the session manager rejects relays of blocked epochs); when the chain leaves that window while the call is still in flight (in production possible only if the random claim delay is 0) the proof is let through, but its key is exempt from the best-proof, no-claim-after-payment and completeness oracles, which presuppose that no proof arrives after its epoch was gathered for claim", "a claim is linked to its claim round through the goroutine that created the TxRelayPayment goroutine; the memory bound is checked against the earliest epoch the chain reported to that round, the window bound against the chain at the submission instant", "`claimed after restart` means handed to TxRelayPayment at least once with at least the durable CuSum; proofs given up after MaxPaymentRequestsRetiresForSession failed submissions, claimed successfully or paid before the crash are not required", "SimDisk honours the entry TTL (24 h default) on the simulated clock; no run lasts that long", "completed-snapshot oracle: a snapshot run that wrote nothing is inferred from the server's own synchronisation - (threshold) the unbuffered trigger hand-over of SendNewProof to the single snapshot goroutine: once a later call's trigger was consumed the run started by the earlier trigger has returned; (period) every run re-arms the timer at its start and takes no simulated time (nothing sleeps while holding the server lock or inside SimDisk, simulated time advances only when no task can run), so strictly more than one snapshot period after an instant a run that started after that instant has returned. Such a run must leave on an undisturbed disk, for every key whose epoch is still inside the active window, at least the best CuSum accepted before it started; a failed / torn batch of any chain or a deletion of the entry restarts the wait (RewardDB abandons the whole snapshot at the first failing chain). Not evaluated on the badger profile"},
	})
}
