package chaintracker

import (
	"context"
	"fmt"
	"io"
	"os"
	"sort"
	"strings"
	"sync"
	"sync/atomic"
	"time"

	"github.com/lavanet/lava/v5/protocol/lavasession"
	"github.com/lavanet/lava/v5/utils"
	lavarand "github.com/lavanet/lava/v5/utils/rand"
	spectypes "github.com/lavanet/lava/v5/x/spec/types"
	"github.com/lavanet/lava/v5/zz_verif/simrt"
	"github.com/rs/zerolog"
	zerologlog "github.com/rs/zerolog/log"
)

// C30: the chain tracker mirrors the node's canonical chain.
//
// Real: ChainTracker incl. its polling goroutine (started by the `go` statement in start(), which
// the yields instrumentation turns into a scheduled task), its timers/ticker/backoff on the
// synctest fake clock, DefaultChainTrackerFetcher (server-memory guard), WantedBlocksData.
// Simulated: the node behind chaintracker.ChainFetcher (c30World below), reader tasks.
//
// Two configurations (profiles):
//   strict  - the node changes only between polls (at the instant a poll starts, before the node
//             answers its first call): after every successful poll the tracker must equal the node.
//   relaxed - the node also changes in the middle of a poll: structure only + bounded liveness.

type c30Seg struct {
	from int64
	fork int
}

// one node history: heights >= segs[i].from (and < segs[i+1].from) carry fork id segs[i].fork
type c30Version struct {
	id     int
	segs   []c30Seg
	maxTip int64 // highest tip this history reached while it was the node's canonical chain
}

func (v *c30Version) forkAt(h int64) int {
	f := v.segs[0].fork
	for _, s := range v.segs {
		if s.from <= h {
			f = s.fork
		} else {
			break
		}
	}
	return f
}

func c30Hash(h int64, fork int) string { return fmt.Sprintf("0x%06x%03x", h, fork) }

func (v *c30Version) hash(h int64) string { return c30Hash(h, v.forkAt(h)) }

// net.Error shaped failure (the tracker looks for it one Unwrap() deep)
type c30NetErr struct{ msg string }

func (e c30NetErr) Error() string   { return e.msg }
func (e c30NetErr) Timeout() bool   { return true }
func (e c30NetErr) Temporary() bool { return true }

const (
	c30Init = iota
	c30Run
	c30Calm
	c30Done
)

const c30CalmPolls = 3 // K of the bounded-liveness oracle

type c30World struct {
	r      *simrt.Run
	strict bool
	n      int64 // blocksToSave

	versions []*c30Version
	cur      *c30Version
	tip      int64
	nextFork int
	// height regression: the node reports a latest below its tip for a few polls
	regressLeft  int
	regressBy    int64
	regressServe bool // blocks above the reported latest are still served
	curRep       int64
	served       map[int64]map[string]struct{}

	ct     *ChainTracker
	cancel context.CancelFunc
	avg    time.Duration

	phase       int
	targetPolls int
	faultDen    int // 0 = no injected call faults in this run
	pollNo      int
	calmDone    int
	noOldCb     bool
	nilCbPanic  bool

	// the poll in progress
	pollOpen  bool
	pollErr   bool
	pollCalm  bool
	pollRep   int64
	pollVer   *c30Version
	pollMixed bool // node changed after the poll started (relaxed only)
	pre       []BlockStore
	preLatest int64
	preDiffer int
	forkCb    int
	inPoll    bool
	// the poll's own first hash call (forkChanged) saw a hash that differs from the stored tip
	pollHashCalls int
	pollForkSeen  bool
	queries       int
}

func (w *c30World) FetchEndpoint() lavasession.RPCProviderEndpoint {
	return lavasession.RPCProviderEndpoint{ChainID: "SIM1", ApiInterface: "jsonrpc"}
}

func (w *c30World) CustomMessage(ctx context.Context, path string, data []byte, connectionType string, apiName string) ([]byte, error) {
	return nil, fmt.Errorf("not supported by the simulated node")
}

// ---- node evolution ----

func (w *c30World) advance(k int64) {
	w.tip += k
	w.cur.maxTip = w.tip
}

func (w *c30World) reorg(depth, grow int64) {
	if depth > w.tip+1 {
		depth = w.tip + 1
	}
	from := w.tip - depth + 1
	nv := &c30Version{id: len(w.versions)}
	for _, s := range w.cur.segs {
		if s.from < from {
			nv.segs = append(nv.segs, s)
		}
	}
	w.nextFork++
	nv.segs = append(nv.segs, c30Seg{from, w.nextFork})
	w.tip += grow
	nv.maxTip = w.tip
	w.versions = append(w.versions, nv)
	w.cur = nv
}

func (w *c30World) evolve(stream, when string) {
	r := w.r
	k := r.Draw(stream, 16)
	switch {
	case k <= 5:
		w.advance(1)
		r.Logf("node[%s]: +1 block -> tip %d", when, w.tip)
	case k <= 7:
		a := int64(2 + r.Draw(stream, 3))
		w.advance(a)
		r.Logf("node[%s]: +%d blocks -> tip %d", when, a, w.tip)
	case k == 8:
		g := w.n - 2 + int64(r.Draw(stream, 6))
		if r.Chance(stream, 1, 4) {
			g = 2*w.n + int64(r.Draw(stream, 20))
		}
		if g < 2 {
			g = 2
		}
		w.advance(g)
		r.Logf("node[%s]: jump ahead +%d blocks -> tip %d", when, g, w.tip)
	case k <= 10:
		d := int64(1 + r.Draw(stream, int(w.n)))
		g := int64(r.Draw(stream, 3))
		w.reorg(d, g)
		r.Logf("node[%s]: reorg depth %d (<= memory %d) grow %d -> history v%d fork f%d tip %d", when, d, w.n, g, w.cur.id, w.nextFork, w.tip)
	case k == 11:
		d := w.n + 1 + int64(r.Draw(stream, 4))
		g := int64(r.Draw(stream, 3))
		w.reorg(d, g)
		r.Logf("node[%s]: reorg depth %d (> memory %d) grow %d -> history v%d fork f%d tip %d", when, d, w.n, g, w.cur.id, w.nextFork, w.tip)
	case k == 12:
		d := int64(1 + r.Draw(stream, int(w.n)+2))
		g := int64(1 + r.Draw(stream, int(w.n)+2))
		w.reorg(d, g)
		r.Logf("node[%s]: reorg depth %d then +%d blocks -> history v%d fork f%d tip %d", when, d, g, w.cur.id, w.nextFork, w.tip)
	case k == 14:
		w.regressLeft = 1 + r.Draw(stream, 2)
		w.regressBy = int64(1 + r.Draw(stream, 3))
		w.regressServe = r.Chance(stream, 1, 2)
		r.Logf("node[%s]: reports a latest %d below its tip %d for %d polls (higher blocks served=%v)", when, w.regressBy, w.tip, w.regressLeft, w.regressServe)
	default:
		r.Logf("node[%s]: no change (tip %d)", when, w.tip)
	}
}

// ---- call faults and latency ----

func (w *c30World) call(ctx context.Context, what string) error {
	r := w.r
	d := 137 * time.Microsecond * time.Duration(1+r.Draw("lat", 4))
	kind := 0
	if w.faultDen > 0 && (w.phase == c30Run || w.phase == c30Init) {
		den := w.faultDen
		if what == "hash" {
			den *= 3
		}
		if w.phase == c30Init {
			den *= 2
		}
		if r.Chance("fault", 1, den) {
			kind = 1 + r.Draw("fault", 5)
		}
	}
	switch kind {
	case 3:
		d += time.Duration(1+r.Draw("fault", 8000)) * time.Millisecond // slow, still inside the deadline
	case 4:
		d += 20 * time.Second // hangs past the tracker's own fetch deadline
	case 5:
		d += time.Duration(1+r.Draw("fault", 200)) * time.Millisecond
	}
	site := "harness:node-" + what
	simrt.Yield(site)
	tm := time.NewTimer(d)
	expired := false
	select {
	case <-tm.C:
	case <-ctx.Done():
		tm.Stop()
		expired = true
	}
	simrt.Resume(site)
	if expired {
		if w.phase != c30Done {
			r.Fault("fetch_timeout")
		}
		return ctx.Err()
	}
	switch kind {
	case 1:
		r.Fault("fetch_error")
		return fmt.Errorf("simulated node: internal error on %s", what)
	case 2:
		r.Fault("fetch_timeout")
		return fmt.Errorf("simulated node: request failed: %w", c30NetErr{"i/o timeout on " + what})
	case 3:
		r.Fault("latency")
	}
	return nil
}

func (w *c30World) heldState() (int64, []BlockStore) {
	// in-package, lock-free, without going through instrumented accessors: the value at this instant
	return atomic.LoadInt64(&w.ct.latestBlockNum), append([]BlockStore(nil), w.ct.blocksQueue...)
}

func c30Fmt(q []BlockStore) string {
	var sb strings.Builder
	for i, b := range q {
		if i > 0 {
			sb.WriteByte(' ')
		}
		fmt.Fprintf(&sb, "%d:%s", b.Block, b.Hash)
	}
	return sb.String()
}

func (w *c30World) FetchLatestBlockNum(ctx context.Context) (int64, error) {
	r := w.r
	if w.phase == c30Init {
		if err := w.call(ctx, "latest"); err != nil {
			r.Logf("init: latest -> error (%v)", err)
			return 0, err
		}
		w.curRep = w.tip
		r.Logf("init: latest -> %d", w.tip)
		return w.tip, nil
	}
	w.endPoll()
	if w.phase == c30Done {
		return 0, context.Canceled
	}
	// ---- a new poll starts ----
	r.Step()
	w.pollNo++
	if w.phase == c30Run && w.pollNo > w.targetPolls {
		w.phase = c30Calm
		w.regressLeft = 0
		r.Logf("---- node stops changing, faults stop (tip %d, history v%d) ----", w.tip, w.cur.id)
	}
	if w.phase == c30Run {
		w.evolve("ops", "between polls")
	}
	rep := w.tip
	if w.regressLeft > 0 {
		w.regressLeft--
		rep = w.tip - w.regressBy
		if rep < 0 {
			rep = 0
		}
	}
	w.curRep = rep
	w.preLatest, w.pre = w.heldState()
	w.preDiffer = 0
	for _, b := range w.pre {
		if b.Block > w.tip || b.Hash != w.cur.hash(b.Block) {
			w.preDiffer++
		}
	}
	w.pollOpen, w.pollErr, w.pollMixed, w.pollRep, w.pollVer, w.forkCb = true, false, false, rep, w.cur, 0
	w.pollHashCalls, w.pollForkSeen = 0, false
	w.pollCalm = w.phase == c30Calm
	w.inPoll = true
	if err := w.call(ctx, "latest"); err != nil {
		w.pollErr = true
		if w.noOldCb && strings.Contains(err.Error(), "i/o timeout") {
			w.nilCbPanic = true
		}
		r.Logf("poll %d: latest -> error (%v)", w.pollNo, err)
		return 0, err
	}
	r.Logf("poll %d: latest -> %d (tracker holds latest %d, %d of its %d hashes differ from the node's)", w.pollNo, rep, w.preLatest, w.preDiffer, len(w.pre))
	return rep, nil
}

func (w *c30World) FetchBlockHashByNum(ctx context.Context, h int64) (string, error) {
	r := w.r
	if w.phase == c30Done {
		return "", context.Canceled
	}
	if !w.strict && w.phase == c30Run && w.pollOpen && r.Chance("mid", 1, 5) {
		w.evolve("mid", "MID-POLL")
		w.pollMixed = true
		r.Probe("mid_poll_change")
		if w.regressLeft > 0 {
			w.curRep = w.tip - w.regressBy
			if w.curRep < 0 {
				w.curRep = 0
			}
		} else {
			w.curRep = w.tip
		}
	}
	first := w.pollOpen && w.pollHashCalls == 0
	w.pollHashCalls++
	if err := w.call(ctx, "hash"); err != nil {
		w.pollErr = true
		if w.pollOpen && w.pollForkSeen {
			r.Probe("fetch_failed_after_fork_seen")
		}
		r.Logf("   hash(%d) -> error (%v)", h, err)
		return "", err
	}
	if h < 0 || h > w.tip || (h > w.curRep && !w.regressServe) {
		w.pollErr = true
		if w.pollOpen && w.pollForkSeen {
			r.Probe("fetch_failed_after_fork_seen")
		}
		r.Logf("   hash(%d) -> unknown block", h)
		return "", fmt.Errorf("simulated node: block %d not found", h)
	}
	hash := w.cur.hash(h)
	if first && len(w.pre) > 0 && w.pre[len(w.pre)-1].Block == h && w.pre[len(w.pre)-1].Hash != hash {
		// the poll's fork probe: the node's hash for the stored tip is not the stored one
		w.pollForkSeen = true
	}
	m := w.served[h]
	if m == nil {
		m = map[string]struct{}{}
		w.served[h] = m
	}
	m[hash] = struct{}{}
	r.Logf("   hash(%d) -> %s", h, hash)
	return hash, nil
}

// ---- oracles ----

func (w *c30World) viol(class, sig, format string, a ...interface{}) {
	w.r.SetViolation(class, sig, fmt.Sprintf(format, a...))
}

// structure: exactly blocksToSave consecutive heights ending at latest (holds at every instant
// outside replaceBlocksQueue, in both configurations)
func (w *c30World) checkStructure(when string, latest int64, q []BlockStore) bool {
	r := w.r
	r.OracleEvals++
	if int64(len(q)) != w.n {
		w.viol("stored-count", when, "tracker holds %d hashes, configured to hold %d (latest %d): %s", len(q), w.n, latest, c30Fmt(q))
		return false
	}
	for i, b := range q {
		if b.Block != latest-w.n+1+int64(i) {
			w.viol("stored-not-consecutive", when, "position %d holds height %d, expected %d (latest %d, %d blocks): %s", i, b.Block, latest-w.n+1+int64(i), latest, w.n, c30Fmt(q))
			return false
		}
	}
	return true
}

func (w *c30World) checkMirror(when string, latest int64, q []BlockStore, v *c30Version, nodeLatest int64) bool {
	r := w.r
	r.OracleEvals++
	if latest != nodeLatest {
		w.viol("latest-differs-from-node", when, "tracker latest %d, node latest %d", latest, nodeLatest)
		return false
	}
	for _, b := range q {
		if b.Block > w.tip || b.Hash != v.hash(b.Block) {
			w.viol("stored-hash-differs-from-node", when, "height %d: tracker holds %s, the node's hash is %s (node history v%d, latest %d); held: %s", b.Block, b.Hash, v.hash(b.Block), v.id, nodeLatest, c30Fmt(q))
			return false
		}
	}
	return true
}

func (w *c30World) oneVersion(q []BlockStore) (int, bool) {
	for i := len(w.versions) - 1; i >= 0; i-- {
		v := w.versions[i]
		ok := true
		for _, b := range q {
			if b.Block < 0 || b.Block > v.maxTip || b.Hash != v.hash(b.Block) {
				ok = false
				break
			}
		}
		if ok {
			return v.id, true
		}
	}
	return -1, false
}

// called when the poller comes back for the next poll (or the run ends): the previous poll is over
func (w *c30World) endPoll() {
	r := w.r
	if !w.pollOpen {
		return
	}
	w.pollOpen, w.inPoll = false, false
	latest, q := w.heldState()
	outcome := "ok"
	if w.pollErr {
		outcome = "failed"
	}
	r.Logf("poll %d ended (%s): tracker latest %d holds %s", w.pollNo, outcome, latest, c30Fmt(q))
	if !w.checkStructure("after-poll", latest, q) {
		return
	}
	// "the fork callback fires only when a stored hash changed", also across failed polls: a poll
	// in which the callback fired must have changed what the tracker stores (both configurations:
	// a poll that replaced nothing -- e.g. it failed half way -- has no business reporting a fork,
	// the change is reported by the poll that stores it)
	if w.forkCb > 0 {
		r.OracleEvals++
		if latest == w.preLatest && c30Fmt(q) == c30Fmt(w.pre) {
			w.viol("fork-callback-without-changed-hash", "nothing-stored-changed-in-poll", "the fork callback fired %d time(s) in poll %d (%s), but the tracker stores exactly what it stored when the poll started: latest %d [%s]", w.forkCb, w.pollNo, outcome, latest, c30Fmt(q))
			return
		}
		r.Probe("fork_cb_poll_changed_stored_hashes")
	}
	if w.pollErr {
		if w.pollForkSeen {
			r.Probe("poll_failed_after_fork_seen")
		}
		r.Op("poll", "failed")
	} else if w.pollRep < w.preLatest {
		// height regression: the tracker deliberately keeps its higher latest (consistency callback)
		r.Op("poll", "regress")
		r.Fault("regress")
	} else {
		r.Op("poll", "ok")
		if w.pollRep > w.preLatest+1 {
			r.Fault("gap")
			if w.pollRep-w.preLatest >= w.n {
				r.Probe("gap_ge_memory")
			}
			if w.preDiffer > 0 {
				r.Probe("gap_and_reorg")
			}
		}
		switch {
		case w.preDiffer == 0:
			if w.pollRep == w.preLatest {
				r.Fault("stall")
			}
		case int64(w.preDiffer) < w.n:
			r.Fault("reorg_shallow")
			if int64(w.preDiffer) >= w.n-1 {
				r.Probe("reorg_at_memory_edge")
			}
		default:
			r.Fault("reorg_deep")
		}
		if w.strict || !w.pollMixed {
			if !w.checkMirror("after-successful-poll", latest, q, w.pollVer, w.pollRep) {
				return
			}
			r.Probe("mirror_checked")
		}
	}
	// a few block-data queries at this quiet instant
	for i := 0; i < 2 && r.Violated() == nil; i++ {
		w.query("grid", "poller")
	}
	if w.pollCalm {
		w.calmDone++
		if w.calmDone >= c30CalmPolls {
			// bounded liveness: node and faults have been quiet for K whole polls
			latest, q = w.heldState()
			if w.checkMirror("liveness-after-quiet-polls", latest, q, w.cur, w.tip) {
				r.Probe("liveness_checked")
			}
			w.finish()
		}
	}
}

func (w *c30World) finish() {
	if w.phase != c30Done {
		w.phase = c30Done
		w.cancel()
	}
}

// one GetLatestBlockData call with tape-chosen arguments, checked against what the tracker holds
func (w *c30World) query(stream, who string) {
	r := w.r
	latestNow := atomic.LoadInt64(&w.ct.latestBlockNum)
	pick := func() int64 {
		switch r.Draw(stream, 4) {
		case 0, 1:
			x := int64(r.Draw(stream, int(w.n)+2))
			if x > latestNow {
				x = latestNow
			}
			return spectypes.LATEST_BLOCK - x
		case 2:
			a := latestNow - w.n - 1 + int64(r.Draw(stream, int(w.n)+4))
			if a < 0 {
				a = 0
			}
			return a
		}
		return spectypes.NOT_APPLICABLE
	}
	from, to, spec := pick(), pick(), pick()
	switch r.Draw(stream, 5) {
	case 0: // the whole window
		from, to = spectypes.LATEST_BLOCK-(w.n-1), spectypes.LATEST_BLOCK
		if w.n-1 > latestNow {
			from = 0
		}
	case 1: // specific only
		from, to = spectypes.NOT_APPLICABLE, spectypes.NOT_APPLICABLE
	}
	w.queries++
	if w.inPoll && who != "poller" {
		r.Probe("reader_during_poll")
	}
	// the query contains scheduling points (its lock, and the deferred unlock after the result is
	// computed): the "returned what is held" comparison is only meaningful when the held state did
	// not change while the call was in progress
	heldLatest0, held0 := w.heldState()
	latest, got, _, err := w.ct.GetLatestBlockData(from, to, spec)
	heldLatest, held := w.heldState()
	heldStable := heldLatest0 == heldLatest && c30Fmt(held0) == c30Fmt(held)
	if err != nil {
		r.Op("query", "err")
		r.Logf("%s: GetLatestBlockData(%d,%d,%d) -> error", who, from, to, spec)
		return
	}
	r.Op("query", "ok")
	resolve := func(a int64) (int64, bool) {
		if a > spectypes.LATEST_BLOCK {
			return a, true
		}
		res := a - spectypes.LATEST_BLOCK + latest
		return res, res >= 0
	}
	var want []int64
	clear := true
	inRange := func(int64) bool { return false }
	if from != spectypes.NOT_APPLICABLE && to != spectypes.NOT_APPLICABLE {
		f, ok1 := resolve(from)
		t, ok2 := resolve(to)
		clear = ok1 && ok2
		for h := f; h <= t; h++ {
			want = append(want, h)
		}
		inRange = func(h int64) bool { return h >= f && h <= t }
	}
	if spec != spectypes.NOT_APPLICABLE {
		s, ok := resolve(spec)
		clear = clear && ok
		if !inRange(s) {
			want = append(want, s)
		}
	}
	sort.Slice(want, func(i, j int) bool { return want[i] < want[j] })
	gotH := make([]int64, 0, len(got))
	gotQ := make([]BlockStore, 0, len(got))
	for _, b := range got {
		gotH = append(gotH, b.Block)
		gotQ = append(gotQ, *b)
	}
	sort.Slice(gotH, func(i, j int) bool { return gotH[i] < gotH[j] })
	r.Logf("%s: GetLatestBlockData(%d,%d,%d) -> latest %d blocks [%s]", who, from, to, spec, latest, c30Fmt(gotQ))
	sig := fmt.Sprintf("range=%v,specific=%v", from != spectypes.NOT_APPLICABLE && to != spectypes.NOT_APPLICABLE, spec != spectypes.NOT_APPLICABLE)
	r.OracleEvals++
	if clear && fmt.Sprint(gotH) != fmt.Sprint(want) {
		w.viol("query-returned-other-blocks", sig, "GetLatestBlockData(from %d, to %d, specific %d) with latest %d returned heights %v, requested %v", from, to, spec, latest, gotH, want)
		return
	}
	// what was returned is what the tracker holds
	if !heldStable {
		r.Probe("held_state_changed_during_query")
		return
	}
	r.OracleEvals++
	if latest != heldLatest {
		w.viol("query-latest-differs-from-held", sig, "returned latest %d, tracker holds latest %d", latest, heldLatest)
		return
	}
	for _, b := range gotQ {
		idx := -1
		if len(held) > 0 {
			idx = int(b.Block - held[0].Block)
		}
		if idx < 0 || idx >= len(held) || held[idx] != b {
			w.viol("query-returned-unheld-hash", sig, "GetLatestBlockData(%d,%d,%d) returned %d:%s, tracker holds [%s]", from, to, spec, b.Block, b.Hash, c30Fmt(held))
			return
		}
	}
	w.checkHeldBelongsToNode(who, heldLatest, held)
}

// at any instant: structure; every held hash was served by the node for that height; in the strict
// configuration the held hashes all belong to ONE history the node really had
func (w *c30World) checkHeldBelongsToNode(who string, latest int64, held []BlockStore) {
	r := w.r
	when := "reader"
	if !w.checkStructure(when, latest, held) {
		return
	}
	r.OracleEvals++
	for _, b := range held {
		if _, ok := w.served[b.Block][b.Hash]; !ok {
			w.viol("held-hash-never-served", when, "tracker holds %d:%s which the node never returned for that height; held [%s]", b.Block, b.Hash, c30Fmt(held))
			return
		}
	}
	if w.strict {
		r.OracleEvals++
		if _, ok := w.oneVersion(held); !ok {
			w.viol("held-hashes-mix-histories", when, "tracker holds [%s] (latest %d): no single history of the node contains all of them", c30Fmt(held), latest)
		}
	}
}

func (w *c30World) reader(name string, n int) {
	r := w.r
	for i := 0; i < n && w.phase != c30Done && r.Violated() == nil; i++ {
		var d time.Duration
		switch r.Draw("rd", 5) {
		case 0:
			d = 0
		case 1:
			d = time.Duration(1+r.Draw("rd", 300)) * 100 * time.Microsecond
		case 2:
			d = time.Duration(1+r.Draw("rd", 100)) * 10 * time.Millisecond
		case 3:
			d = w.avg / 16
		default:
			d = time.Duration(1+r.Draw("rd", 60)) * time.Second
		}
		simrt.Yield("harness:reader-sleep")
		if d > 0 {
			time.Sleep(d)
			simrt.Resume("harness:reader-sleep")
		}
		if w.phase == c30Done {
			return
		}
		if r.Chance("rd", 1, 4) {
			hl0, _ := w.heldState()
			l, _ := w.ct.GetLatestBlockNum()
			hl, _ := w.heldState()
			r.OracleEvals++
			r.Logf("%s: GetLatestBlockNum -> %d", name, l)
			if hl0 == hl && l != hl { // (held latest unchanged while the call was in progress)
				w.viol("query-latest-differs-from-held", "GetLatestBlockNum", "GetLatestBlockNum returned %d, tracker holds latest %d", l, hl)
				return
			}
			r.Op("latestnum", "ok")
			continue
		}
		w.query("rd", name)
	}
}

var c30Once sync.Once

func runC30(r *simrt.Run) {
	c30Once.Do(func() {
		utils.SetGlobalLoggingLevel("fatal")
		zerologlog.Logger = zerolog.New(io.Discard).Level(zerolog.Disabled)
		lavarand.InitRandomSeed()
	})
	inBubble(r, func(s *simrt.Sched) {
		w := &c30World{r: r, served: map[int64]map[string]struct{}{}}
		w.strict = r.Profile != "relaxed"
		w.n = int64(1 + r.Draw("cfg", 12))
		switch r.Draw("cfg", 5) {
		case 0:
			w.tip = 1000 + int64(r.Draw("cfg", 1000))
		case 1:
			w.tip = w.n - 1 // the node has exactly blocksToSave blocks: heights 0..n-1
		case 2:
			w.tip = w.n
		case 3:
			w.tip = w.n + int64(r.Draw("cfg", 5))
		default:
			w.tip = 50 + int64(r.Draw("cfg", 200))
		}
		w.cur = &c30Version{id: 0, segs: []c30Seg{{0, 0}}, maxTip: w.tip}
		w.versions = []*c30Version{w.cur}
		w.targetPolls = 6 + r.Draw("cfg", 20)
		if r.Tier == "thorough" {
			w.targetPolls = 20 + r.Draw("cfg", 80)
		}
		switch r.Draw("cfg", 4) {
		case 0:
			w.faultDen = 0
		case 1:
			w.faultDen = 6
		default:
			w.faultDen = 14
		}
		w.noOldCb = r.Draw("cfg", 6) == 5 // the rpcprovider / events configurations set no OldBlockCallback
		if os.Getenv("VERIF_C30_SKIP_NILCB") == "1" {
			w.noOldCb = false // development knob: explore past the nil-callback finding before it is listed as known
		}
		w.avg = time.Duration(1+r.Draw("cfg", 20)) * time.Second
		mult := []int{0, 0, 4, 8, 16}[r.Draw("cfg", 5)]
		nReaders := r.Draw("cfg", 4)
		perReader := 10 + r.Draw("cfg", 30)

		ctx, cancel := context.WithCancel(context.Background())
		w.cancel = cancel
		defer cancel()
		cfg := ChainTrackerConfig{
			BlocksToSave:     uint64(w.n),
			AverageBlockTime: w.avg,
			// larger than the number of block-gap samples a run can collect: AddBlockGap then never
			// reaches its crypto/rand replacement branch (which would make timers irreproducible)
			ServerBlockMemory:     uint64(w.n) + uint64(w.targetPolls) + 20,
			PollingTimeMultiplier: mult,
			ChainId:               "SIM1",
			ParseDirectiveEnabled: true,
			NewLatestCallback: func(from, to int64, hash string) {
				r.Probe("newlatest_cb")
				r.Logf("   callback: new latest %d -> %d hash %s", from, to, hash)
			},
			ForkCallback: func(b int64) {
				w.forkCb++
				r.Probe("fork_cb")
				r.Logf("   callback: FORK at %d", b)
				if w.strict && w.pollOpen {
					// "fires only when a stored hash changed": some hash held when the poll
					// started is not the node's hash for that height
					r.OracleEvals++
					if w.preDiffer == 0 {
						w.viol("fork-callback-without-changed-hash", "strict", "fork callback(%d) in poll %d, but every hash the tracker held [%s] equals the node's (history v%d, latest %d)", b, w.pollNo, c30Fmt(w.pre), w.pollVer.id, w.pollRep)
					}
				}
			},
			ConsistencyCallback: func(oldB, newB int64) {
				r.Probe("consistency_cb")
				r.Logf("   callback: consistency old %d new %d", oldB, newB)
			},
			FetchErrorCallback: func() { r.Probe("fetcherr_cb") },
		}
		if !w.noOldCb {
			cfg.OldBlockCallback = func(t time.Time) { r.Probe("oldblock_cb") }
		}
		r.Logf("config: %s blocksToSave=%d node tip=%d avgBlockTime=%v multiplier=%d polls=%d faults=1/%d readers=%d oldBlockCallback=%v", r.Profile, w.n, w.tip, w.avg, mult, w.targetPolls, w.faultDen, nReaders, !w.noOldCb)
		ict, err := NewChainTracker(ctx, w, cfg)
		if err != nil {
			r.Fail("harness", "new", "NewChainTracker: %v", err)
		}
		w.ct = ict.(*ChainTracker)

		s.Go("main", true, func() {
			w.phase = c30Init
			err := w.ct.StartAndServe(ctx)
			if err != nil {
				r.Op("start", "err")
				r.Logf("StartAndServe failed: %v", errShortC30(err))
				w.finish()
				return
			}
			r.Op("start", "ok")
			latest, q := w.heldState()
			r.Logf("started: tracker latest %d holds %s", latest, c30Fmt(q))
			if !w.checkStructure("after-init", latest, q) || !w.checkMirror("after-init", latest, q, w.cur, w.tip) {
				w.finish()
				return
			}
			w.phase = c30Run
			for i := 0; i < nReaders; i++ {
				name := fmt.Sprintf("R%d", i)
				s.Go(name, true, func() { w.reader(name, perReader) })
			}
			for w.phase != c30Done && r.Violated() == nil {
				simrt.Yield("harness:main-wait")
				time.Sleep(30 * time.Second)
				simrt.Resume("harness:main-wait")
				if w.nilCbPanic && len(r.KnownHits) > 0 {
					// listed known finding: the poller died of the nil OldBlockCallback
					r.Op("poller", "crashed_known_finding")
					w.finish()
				}
			}
		})
		start := time.Now()
		s.Run(48*time.Hour, 400000)
		r.SimSpan = int64(time.Since(start))
		if r.Violated() != nil {
			return
		}
		if !s.Quiescent {
			r.Probe("not_quiescent")
			r.Logf("run ended without quiescence: horizon=%v steps=%v leftover=%v", s.HorizonHit, s.StepsHit, s.Leftover())
			if s.HorizonHit {
				r.SetViolation("tracker-stopped-polling", "", fmt.Sprintf("after 48 simulated hours only %d of %d polls happened; tasks: %v", w.pollNo, w.targetPolls+c30CalmPolls, s.Leftover()))
			}
			return
		}
		s.Drain(time.Second, 2000)
	})
}

func errShortC30(err error) string {
	s := err.Error()
	if len(s) > 80 {
		s = s[:80]
	}
	return s
}

func init() {
	simrt.Register("C30", &simrt.PropSpec{Fn: runC30, Profiles: []string{"strict", "relaxed"},
		NonTrivial: func(r *simrt.Run) bool {
			return r.Ops["poll:ok"] >= 4 && r.Ops["query:ok"] >= 3 && r.Switches >= 20
		},
		Rule:    "the real ChainTracker (blocksToSave 1-12, its own timers, ticker and back-off on the synctest fake clock; its polling goroutine is a scheduled task) polls a simulated node with hash-chained blocks (hash = f(height, fork id)); per poll the tape picks the node's next state: +1..4 blocks, jump ahead (around and beyond memory), reorganisation of depth <= memory, depth > memory, reorganisation + growth, no change, or a reported latest below the tip (with/without the higher blocks served); per call: latency, plain error, net.Error timeout, slow answer, hang past the fetch deadline. Profile strict: the node changes only at the instant a poll starts; profile relaxed: also between the calls of one poll. 0-3 reader tasks call GetLatestBlockData over a grid of (from,to,specific) incl. LATEST_BLOCK-relative and out-of-window arguments and GetLatestBlockNum while the poller runs. After 6-25 polls (thorough 20-100) the node and the faults stop and 3 quiet polls follow. Fork callback: (strict) fires only in polls at whose start a held hash differed from the node's; (both) a poll in which it fired, successful or failed, must have changed the stored hashes. Non-trivial = >=4 successful polls, >=3 successful queries, >=20 context switches; distinct = (op,outcome,fault) sequence x context-switch sequence",
		Real:    []string{"protocol/chaintracker ChainTracker incl. start() polling goroutine, updateTimer/exponential back-off, fetchAllPreviousBlocks/readHashes/hashesOverlapIndexes/replaceBlocksQueue, forkChanged, DefaultChainTrackerFetcher, GetLatestBlockData/WantedBlocksData, GetLatestBlockNum (instrumented copies through the build overlay)", "timers, ticker, context deadlines on the synctest fake clock"},
		Stubbed: []string{"the node behind chaintracker.ChainFetcher (simulated: hash-chained blocks, forks, gaps, regressions, errors, latency)", "reader tasks", "gRPC listener not started (no ServerAddress)", "provider metrics (nil)"},
		Assume:  []string{"code between two instrumented synchronisation points is atomic in the simulation", "a poll counts as successful when no node call of that poll failed and the reported latest is not below the tracker's (a lower reported latest is answered with the consistency callback and deliberately not mirrored)", "the node serves every height 0..tip and never re-creates a hash of an abandoned fork", "fork callback legitimacy: some hash held at poll start differs from the node's hash for that height", "ServerBlockMemory is set above the number of polls so that AddBlockGap never draws from crypto/rand", "bounded liveness K = 3 quiet polls"},
	})
}
