package relaycore

import (
	"context"
	"fmt"
	"io"
	"net/http"
	"os"
	"strconv"
	"strings"
	"sync"
	"time"

	"github.com/lavanet/lava/v5/protocol/chainlib"
	"github.com/lavanet/lava/v5/protocol/chainlib/extensionslib"
	"github.com/lavanet/lava/v5/protocol/common"
	"github.com/lavanet/lava/v5/protocol/lavaprotocol"
	"github.com/lavanet/lava/v5/protocol/lavasession"
	"github.com/lavanet/lava/v5/utils"
	specutils "github.com/lavanet/lava/v5/utils/keeper"
	pairingtypes "github.com/lavanet/lava/v5/x/pairing/types"
	spectypes "github.com/lavanet/lava/v5/x/spec/types"
	"github.com/lavanet/lava/v5/zz_verif/simrt"
	"github.com/rs/zerolog"
	zerologlog "github.com/rs/zerolog/log"
)

// C33: in cross-validation mode the consumer returns a response only if at least the agreement
// threshold of providers returned byte-identical successful data; the data is that of a largest
// group of identical non-empty responses, or the empty response only when no non-empty group
// reaches the threshold; otherwise an error — whatever the arrival order.
//
// Real: RelayProcessor (WaitForResults / handleResponse / checkEndProcessing / ProcessingResult /
// responsesCrossValidation), ResultsManagerInst, UnifiedRelayStateMachine as the processor's data
// holder (selection + thresholds parsed from the real directive headers), lavasession.UsedProviders,
// the real LAV1 REST chain parser/message (node-error detection). Simulated: providers (delivery
// tasks), the consumer's caller, clock.

var c33Once sync.Once
var c33Parser chainlib.ChainParser
var c33ParserErr error

func c33RepoRoot() string {
	root := os.Getenv("VERIF_REPO")
	if root == "" {
		root = "/repo"
	}
	return strings.TrimRight(root, "/") + "/"
}

// c33Setup loads the LAV1 spec and builds the REST chain parser once per worker process (files are
// read outside any bubble).
func c33Setup() {
	c33Once.Do(func() {
		utils.SetGlobalLoggingLevel("fatal")
		zerologlog.Logger = zerolog.New(io.Discard).Level(zerolog.Disabled)
		spec, err := specutils.GetASpec("LAV1", c33RepoRoot(), nil, nil)
		if err != nil {
			c33ParserErr = err
			return
		}
		p, err := chainlib.NewChainParser(spectypes.APIInterfaceRest)
		if err != nil {
			c33ParserErr = err
			return
		}
		p.SetSpec(spec)
		c33Parser = p
	})
}

type c33Metrics struct{}

func (c33Metrics) SetRelayNodeErrorMetric(chainId string, apiInterface string, providerAddress string, method string) {
}
func (c33Metrics) GetChainIdAndApiInterface() (string, string) { return "LAV1", "rest" }

type c33Sender struct{ processing, relay time.Duration }

func (s *c33Sender) GetProcessingTimeout(chainMessage chainlib.ChainMessage) (time.Duration, time.Duration) {
	return s.processing, s.relay
}
func (s *c33Sender) GetChainIdAndApiInterface() (string, string) { return "LAV1", "rest" }
func (s *c33Sender) ParseRelay(ctx context.Context, url string, req string, connectionType string, dappID string, consumerIp string, metadata []pairingtypes.Metadata) (chainlib.ProtocolMessage, error) {
	return nil, fmt.Errorf("c33: ParseRelay is not used")
}

const (
	c33Success = iota
	c33NodeError
	c33ProtocolError
)

type c33Resp struct {
	id        int
	provider  string
	kind      int
	data      []byte
	dataName  string // short stable name for the trace
	status    int
	latency   time.Duration
	noReply   bool // the provider never answers
	nilReply  bool // protocol error without a Reply
	delivered bool
}

func (x *c33Resp) String() string {
	k := map[int]string{c33Success: "ok", c33NodeError: "nodeerr", c33ProtocolError: "protoerr"}[x.kind]
	return fmt.Sprintf("#%d %s %s data=%s lat=%v", x.id, x.provider, k, x.dataName, x.latency)
}

type c33World struct {
	r         *simrt.Run
	rp        *RelayProcessor
	up        *lavasession.UsedProviders
	threshold int
	maxPart   int
	resps     []*c33Resp
	delivered []int // ids in the order in which SetResponse put them on the processor's channel
	readers   int   // WaitForResults calls that may currently be handling a response
}

func (w *c33World) deliver(x *c33Resp) {
	r := w.r
	simrt.Yield("harness:c33-deliver")
	if x.latency > 0 {
		time.Sleep(x.latency)
		simrt.Resume("harness:c33-deliver")
	}
	if x.noReply {
		r.Fault("no_response")
		r.Logf("P%d: never answers", x.id)
		return
	}
	var err error
	if x.kind == c33ProtocolError {
		err = fmt.Errorf("provider %s failed the relay", x.provider)
	}
	// same order as the consumer: the session is released (RemoveUsed) before the response is set
	w.up.RemoveUsed(x.provider, lavasession.NewRouterKey(nil), err)
	resp := &RelayResponse{
		RelayResult: common.RelayResult{
			Request:      &pairingtypes.RelayRequest{RelaySession: &pairingtypes.RelaySession{}, RelayData: &pairingtypes.RelayPrivateData{}},
			ProviderInfo: common.ProviderInfo{ProviderAddress: x.provider},
			StatusCode:   x.status,
		},
		Err: err,
	}
	if !x.nilReply {
		resp.RelayResult.Reply = &pairingtypes.RelayReply{Data: x.data, LatestBlock: 0}
	}
	w.rp.SetResponse(resp)
	// no scheduling point between the channel send inside SetResponse and here
	x.delivered = true
	w.delivered = append(w.delivered, x.id)
	switch x.kind {
	case c33NodeError:
		r.Fault("node_error")
	case c33ProtocolError:
		r.Fault("protocol_error")
	}
	r.Op("deliver", "ok")
	r.Logf("P%d: delivered %s (delivery #%d)", x.id, x, len(w.delivered))
}

// c33Eval decides whether (data, isErr) is a correct outcome for the set S of received responses.
type c33Stats struct {
	groups    map[string]int // non-empty identical successful payloads
	empties   int
	maxNE     int
	successes int
}

func (w *c33World) stats(ids []int) c33Stats {
	st := c33Stats{groups: map[string]int{}}
	for _, id := range ids {
		x := w.resps[id]
		if x.kind != c33Success {
			continue
		}
		st.successes++
		if len(x.data) == 0 {
			st.empties++
			continue
		}
		st.groups[string(x.data)]++
		if st.groups[string(x.data)] > st.maxNE {
			st.maxNE = st.groups[string(x.data)]
		}
	}
	return st
}

func (w *c33World) outcomeOK(ids []int, isErr bool, data []byte) bool {
	st := w.stats(ids)
	t := w.threshold
	if isErr {
		return st.maxNE < t && st.empties < t
	}
	if len(data) > 0 {
		g := st.groups[string(data)]
		return g >= t && g == st.maxNE
	}
	return st.empties >= t && st.maxNE < t
}

func c33Digest(b []byte) string {
	if b == nil {
		return "nil"
	}
	if len(b) == 0 {
		return "empty"
	}
	if len(b) <= 12 {
		return strconv.Quote(string(b))
	}
	return fmt.Sprintf("%q..%q(%d)", string(b[:4]), string(b[len(b)-4:]), len(b))
}

func (w *c33World) consumer(timeout time.Duration, pause time.Duration, lateReader bool) {
	r := w.r
	ctx, cancel := context.WithTimeout(context.Background(), timeout)
	defer cancel()
	simrt.Yield("harness:c33-consumer")
	w.readers++
	errWait := w.rp.WaitForResults(ctx)
	w.readers--
	if errWait != nil {
		r.Fault("consumer_timeout")
	}
	r.Logf("consumer: WaitForResults returned err=%v delivered=%d inchan=%d", errWait != nil, len(w.delivered), len(w.rp.responses))
	if lateReader && ctx.Err() == nil {
		// the state machine starts a new reader after every gotResults(false); it keeps handling
		// late responses while the consumer already processes the result
		r.Fault("late_reader")
		simrt.Go("harness:c33-late-reader", func() {
			for ctx.Err() == nil {
				w.readers++
				err := w.rp.WaitForResults(ctx)
				w.readers--
				if err != nil {
					return
				}
			}
		})
	}
	if pause > 0 {
		simrt.Yield("harness:c33-pause")
		time.Sleep(pause)
		simrt.Resume("harness:c33-pause")
	} else {
		simrt.Yield("harness:c33-pause")
	}
	// ---- "received before processing": lower bound ----
	// FIFO channel: the first (delivered - still buffered) responses were taken by a reader; each
	// reader that is inside WaitForResults right now may be in the middle of handling one of them.
	nDel := len(w.delivered)
	handled := nDel - len(w.rp.responses) - w.readers
	if handled < 0 {
		handled = 0
	}
	must := append([]int(nil), w.delivered[:handled]...)
	res, perr := w.rp.ProcessingResult()
	may := append([]int(nil), w.delivered...)
	extra := may[len(must):]
	var data []byte
	isErr := perr != nil
	if !isErr {
		r.OracleEvals++
		if res == nil {
			r.SetViolation("cv-nil-result-without-error", "", "ProcessingResult returned (nil, nil)")
			return
		}
		if res.Reply != nil {
			data = res.Reply.Data
		}
	}
	r.Logf("consumer: ProcessingResult err=%v data=%s must=%v extra=%v threshold=%d", isErr, c33Digest(data), must, extra, w.threshold)
	if isErr {
		r.Op("process", "error")
	} else {
		r.Op("process", "ok")
	}
	if len(extra) > 0 {
		r.Probe("late_arrival_may_set")
	}
	// ---- "whatever the order in which responses and errors arrive" ----
	// WaitForResults came back by itself (not by the consumer's deadline): the processor declared
	// the exchange decided. Whether the exchange ends in a response or in an error must then be a
	// function of the multiset of responses the providers give, not of their arrival order: if the
	// complete multiset (every provider that answers at all, arrived yet or not) contains an
	// agreeing group of at least the threshold, some arrival order of the same responses yields
	// data, so no arrival order may yield an error. (A quorum found early can only lead to data;
	// without early quorum the processor has to keep waiting for the outstanding sessions.)
	if errWait == nil {
		var answering []int
		outstanding := 0
		for _, x := range w.resps {
			if !x.noReply {
				answering = append(answering, x.id)
				if !x.delivered {
					outstanding++
				}
			}
		}
		stAll := w.stats(answering)
		quorumInAll := stAll.maxNE >= w.threshold || stAll.empties >= w.threshold
		r.OracleEvals++
		if quorumInAll {
			r.Probe("wait_ended_by_itself_quorum_in_complete_multiset")
			if outstanding > 0 {
				r.Probe("wait_ended_by_itself_with_responses_outstanding")
			}
		}
		if isErr && quorumInAll {
			var parts []string
			for _, id := range answering {
				parts = append(parts, w.resps[id].String())
			}
			r.SetViolation("cv-verdict-depends-on-arrival-order", "error-although-complete-multiset-has-quorum",
				fmt.Sprintf("WaitForResults ended by itself (no deadline) and ProcessingResult returned an error, although the responses of this exchange contain an agreeing group of at least the threshold (%d): in another arrival order the same responses return data. threshold=%d maxParticipants=%d; handled before ProcessingResult (in arrival order): %v; delivered later: %v; not yet delivered: %d; all answering providers: [%s]",
					w.threshold, w.threshold, w.maxPart, must, extra, outstanding, strings.Join(parts, "; ")))
			return
		}
	}
	if len(extra) > 12 {
		r.Probe("c33_too_many_candidates")
		return
	}
	// accept the outcome if it is right for some candidate set must ⊆ S ⊆ may
	r.OracleEvals++
	ok := false
	maxGroupOfData, maxEmpties := 0, 0
	for mask := 0; mask < 1<<len(extra); mask++ {
		s := append([]int(nil), must...)
		for i, id := range extra {
			if mask&(1<<i) != 0 {
				s = append(s, id)
			}
		}
		if w.outcomeOK(s, isErr, data) {
			ok = true
		}
		st := w.stats(s)
		if g := st.groups[string(data)]; g > maxGroupOfData {
			maxGroupOfData = g
		}
		if st.empties > maxEmpties {
			maxEmpties = st.empties
		}
	}
	stMust := w.stats(must)
	// vacuity probes
	if !isErr {
		r.Probe("quorum_result_returned")
		if len(data) == 0 {
			r.Probe("empty_result_returned")
		}
	} else {
		r.Probe("error_returned")
		if stMust.successes >= w.threshold {
			r.Probe("error_with_enough_successes_but_no_agreement")
		}
	}
	ties := 0
	for _, c := range stMust.groups {
		if c == stMust.maxNE && c >= w.threshold {
			ties++
		}
	}
	if ties >= 2 {
		r.Probe("tie_between_largest_groups")
	}
	if stMust.empties >= w.threshold && stMust.maxNE >= w.threshold {
		r.Probe("empty_and_nonempty_quorum_together")
	}
	if len(must) < len(w.resps) && !isErr {
		r.Probe("early_exit_before_all_responses")
	}
	if len(stMust.groups) >= 2 {
		r.Probe("differing_payloads")
	}
	if ok {
		return
	}
	desc := func(ids []int) string {
		var parts []string
		for _, id := range ids {
			parts = append(parts, w.resps[id].String())
		}
		return strings.Join(parts, "; ")
	}
	detail := fmt.Sprintf("threshold=%d maxParticipants=%d; received before ProcessingResult: [%s]; delivered while it ran: [%s]; outcome: err=%v data=%s", w.threshold, w.maxPart, desc(must), desc(extra), perr != nil, c33Digest(data))
	switch {
	case isErr:
		r.SetViolation("cv-error-despite-quorum", "", "an error was returned although an agreeing group of successful responses of at least the threshold had been received: "+detail)
	case len(data) > 0 && maxGroupOfData < w.threshold:
		r.SetViolation("cv-result-without-quorum", "", fmt.Sprintf("data was returned that at most %d providers agreed on: ", maxGroupOfData)+detail)
	case len(data) > 0:
		r.SetViolation("cv-result-not-largest-group", "", "the returned data is not that of a largest group of identical non-empty responses: "+detail)
	case maxEmpties < w.threshold:
		r.SetViolation("cv-empty-result-without-quorum", "", fmt.Sprintf("the empty response was returned that at most %d providers gave: ", maxEmpties)+detail)
	default:
		r.SetViolation("cv-empty-result-despite-nonempty-quorum", "", "the empty response was returned although a non-empty group reaches the threshold: "+detail)
	}
}

func runC33(r *simrt.Run) {
	c33Setup()
	if c33ParserErr != nil || c33Parser == nil {
		r.Fail("harness-setup", "spec", "cannot load LAV1 spec: %v", c33ParserErr)
	}
	simrt.SetMapOrder(1+r.Draw("cfg", 3), r.Draw64("cfg"))
	defer simrt.SetMapOrder(simrt.MapOrderNative, 0)
	inBubble(r, func(s *simrt.Sched) {
		w := &c33World{r: r}
		w.maxPart = 1 + r.Draw("cfg", 6)
		w.threshold = 1 + r.Draw("cfg", w.maxPart)
		nSessions := w.maxPart
		if w.maxPart > 1 && r.Chance("cfg", 1, 5) {
			nSessions = 1 + r.Draw("cfg", w.maxPart) // the pairing had fewer providers
		}
		// payload alphabet: variants share a prefix of a per-run length and differ in one byte
		nVariants := 1 + r.Draw("cfg", 3)
		prefixLen := []int{0, 40, 300}[r.Draw("cfg", 3)]
		prefix := strings.Repeat("x", prefixLen)
		variant := func(k int) ([]byte, string) {
			return []byte(`{"h":"` + prefix + `","v":"` + string(rune('A'+k)) + `"}`), string(rune('A' + k))
		}

		chainMsg, err := c33Parser.ParseMsg("/cosmos/base/tendermint/v1beta1/blocks/17", nil, http.MethodGet, nil, extensionslib.ExtensionInfo{LatestBlock: 0})
		if err != nil {
			r.Fail("harness-setup", "parse", "ParseMsg: %v", err)
		}
		headers := map[string]string{
			common.CROSS_VALIDATION_HEADER_MAX_PARTICIPANTS:    strconv.Itoa(w.maxPart),
			common.CROSS_VALIDATION_HEADER_AGREEMENT_THRESHOLD: strconv.Itoa(w.threshold),
		}
		protocolMessage := chainlib.NewProtocolMessage(chainMsg, headers, nil, "dapp", "10.0.0.1")
		ctx := context.Background()
		w.up = lavasession.NewUsedProviders(nil)
		sm, err := NewUnifiedRelayStateMachine(ctx, w.up, &c33Sender{time.Minute, time.Second}, protocolMessage, nil, false, StateMachineConfig{MaxRetries: 3, SendRelayAttempts: 3}, nil)
		if err != nil {
			r.Fail("harness-setup", "sm", "NewUnifiedRelayStateMachine: %v", err)
		}
		if sm.GetSelection() != CrossValidation {
			r.Fail("harness-setup", "selection", "selection is %v", sm.GetSelection())
		}
		w.rp = NewRelayProcessor(ctx, sm.GetCrossValidationParams(), nil, c33Metrics{}, c33Metrics{}, &lavaprotocol.RelayRetriesManager{}, sm)
		r.Logf("cfg: maxParticipants=%d threshold=%d sessions=%d variants=%d prefix=%d", w.maxPart, w.threshold, nSessions, nVariants, prefixLen)

		// the batch: one session per participating provider
		if err := w.up.TryLockSelection(ctx); err != nil {
			r.Fail("harness-setup", "lock", "TryLockSelection: %v", err)
		}
		sessions := lavasession.ConsumerSessionsMap{}
		for i := 0; i < nSessions; i++ {
			r.Step()
			x := &c33Resp{id: i, provider: fmt.Sprintf("lava@p%d", i), status: 200}
			switch k := r.Draw("ops", 8); k {
			case 0, 1, 2, 3:
				v := 0
				if k > 0 {
					v = r.Draw("ops", nVariants)
				}
				x.kind = c33Success
				x.data, x.dataName = variant(v)
			case 4:
				x.kind = c33Success
				if r.Chance("ops", 1, 2) {
					x.data, x.dataName = []byte{}, "empty"
				} else {
					x.data, x.dataName = nil, "nil"
				}
			case 5, 6:
				// node error: 5xx, or a cosmos tx error inside a 200; the body is one of the
				// success variants in half of the cases (identical bodies must not count)
				x.kind = c33NodeError
				if r.Chance("ops", 1, 2) {
					x.status = 500
					if r.Chance("ops", 1, 2) {
						x.data, x.dataName = variant(r.Draw("ops", nVariants))
					} else {
						x.data, x.dataName = []byte(`{"message":"bad","code":123}`), "errbody"
					}
				} else {
					x.data, x.dataName = []byte(`{"tx_response":{"code":5,"raw_log":"insufficient funds"}}`), "txerr"
				}
			default:
				x.kind = c33ProtocolError
				x.status = 0
				switch r.Draw("ops", 3) {
				case 0:
					x.nilReply = true
					x.dataName = "noreply"
				case 1:
					x.data, x.dataName = variant(r.Draw("ops", nVariants))
				default:
					x.data, x.dataName = []byte{}, "empty"
				}
			}
			if !r.Chance("ops", 1, 3) {
				x.latency = time.Duration(1+r.Draw("ops", 30)) * time.Millisecond
			}
			if r.Draw("fault", 14) == 1 {
				x.noReply = true
			}
			w.resps = append(w.resps, x)
			sessions[x.provider] = &lavasession.SessionInfo{}
			r.Logf("plan %s noReply=%v", x, x.noReply)
		}
		w.up.AddUsed(sessions, nil)

		timeout := 10 * time.Second
		switch r.Draw("cfg", 4) {
		case 1:
			timeout = time.Duration(1+r.Draw("cfg", 35)) * time.Millisecond
		case 2:
			timeout = 3 * time.Millisecond
		}
		var pause time.Duration
		if r.Chance("cfg", 1, 2) {
			pause = time.Duration(1+r.Draw("cfg", 30)) * time.Millisecond
		}
		lateReader := r.Chance("cfg", 1, 2)
		r.Logf("cfg: consumer timeout=%v pause=%v lateReader=%v", timeout, pause, lateReader)

		for _, x := range w.resps {
			x := x
			s.Go(fmt.Sprintf("P%d", x.id), true, func() { w.deliver(x) })
		}
		s.Go("consumer", true, func() { w.consumer(timeout, pause, lateReader) })
		start := time.Now()
		s.Run(30*time.Second, 20000)
		r.SimSpan = int64(time.Since(start))
		if r.Violated() != nil {
			return
		}
		if !s.Quiescent {
			r.Probe("not_quiescent")
			r.Logf("run ended without quiescence: horizon=%v steps=%v leftover=%v", s.HorizonHit, s.StepsHit, s.Leftover())
		}
	})
}

func init() {
	simrt.Register("C33", &simrt.PropSpec{Fn: runC33,
		NonTrivial: func(r *simrt.Run) bool {
			return r.Ops["deliver:ok"] >= 2 && r.Switches >= 15 && (r.Ops["process:ok"]+r.Ops["process:error"]) >= 1
		},
		Rule:    "one cross-validation relay per run: maxParticipants 1-6, agreementThreshold 1..maxParticipants (parsed by the real state-machine constructor from the directive headers), one session per participant (sometimes fewer); every provider is a task that after a tape-chosen latency (0-30 ms, many equal) releases its session and calls RelayProcessor.SetResponse with a success (1-3 payload variants that share a 0/40/300-byte prefix and differ in one byte, or an empty/nil payload), a node error (HTTP 5xx or cosmos tx error; body often identical to a success variant), a protocol error (with/without reply) or never answers; the consumer task calls WaitForResults (deadline 3 ms - 10 s) then, after a tape-chosen pause, ProcessingResult, optionally with a concurrent late reader (as the state machine starts after gotResults) that keeps handling late responses. The token-passing scheduler picks the next task at every lock/channel/select of the instrumented relaycore code and UsedProviders. Oracle over every candidate set S with (responses handled before ProcessingResult started) <= S <= (responses delivered before it returned); plus arrival-order independence of the verdict: when WaitForResults ends by itself (not by the deadline) an error is accepted only if the complete multiset of responses of the answering providers (arrived or still outstanding) holds no agreeing group of the threshold size. Non-trivial = >=2 delivered responses, >=15 context switches and a processed outcome; distinct = (op,outcome,fault) sequence x context-switch sequence",
		Real:    []string{"protocol/relaycore RelayProcessor, ResultsManagerInst, RelayErrors, UnifiedRelayStateMachine constructor (instrumented copies through the build overlay; map ranges through the map-order seam)", "protocol/lavasession UsedProviders (instrumented)", "protocol/chainlib REST chain parser + LAV1 spec from /repo/specs (node-error detection CheckResponseError)", "cross-validation directive header parsing (chainlib.BaseProtocolMessage.GetCrossValidationParameters)"},
		Stubbed: []string{"providers and the relay transport (delivery tasks calling RemoveUsed + SetResponse in the consumer's order)", "the consumer's caller (task: WaitForResults -> ProcessingResult)", "RelayRetriesManager with a nil ristretto cache (the consumer side only writes to it)", "consistency = nil, metrics = no-op", "clock: synctest fake time"},
		Assume:  []string{"code between two instrumented synchronisation points is atomic in the simulation (every simulated schedule is a real schedule, not vice versa)", "\"received before processing\" is bracketed: must = responses taken from the processor's FIFO channel and fully handled before ProcessingResult was called, may = everything delivered by SetResponse before it returned; an outcome is accepted if it is right for any set in between", "a response is successful iff Err == nil and the chain message's CheckResponseError finds no node error; every successful response carries a Reply", "the waiting context only expires by its deadline (no explicit cancel racing with deliveries), so no select ever has two ready cases"},
	})
}
