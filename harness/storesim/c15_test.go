package storesim

import (
	"bytes"
	"fmt"
	"sort"
	"time"

	sdk "github.com/cosmos/cosmos-sdk/types"
	timertypes "github.com/lavanet/lava/v5/x/timerstore/types"
	"github.com/lavanet/lava/v5/zz_verif/simrt"
)

// C15: timers fire exactly once, in (expiry,key) order, at the first tick that reaches their
// expiry; deleted timers never fire; re-adding overwrites; timers added/deleted from callbacks
// are honoured. Simulated: the block clock (height/time, skipped ticks, jumps, stalls) and
// "failed transactions" (operations on a cache context that is discarded).

type tmKey struct {
	expiry uint64
	key    string
}

type tmModel struct {
	m [2]map[tmKey]string // per timer kind
}

func newTmModel() *tmModel {
	return &tmModel{m: [2]map[tmKey]string{{}, {}}}
}

func (m *tmModel) clone() *tmModel {
	c := newTmModel()
	for k := 0; k < 2; k++ {
		for a, b := range m.m[k] {
			c.m[k][a] = b
		}
	}
	return c
}

func (m *tmModel) sorted(kind int) []tmKey {
	ks := make([]tmKey, 0, len(m.m[kind]))
	for k := range m.m[kind] {
		ks = append(ks, k)
	}
	sort.Slice(ks, func(i, j int) bool {
		if ks[i].expiry != ks[j].expiry {
			return ks[i].expiry < ks[j].expiry
		}
		return bytes.Compare([]byte(ks[i].key), []byte(ks[j].key)) < 0
	})
	return ks
}

type tmWorld struct {
	r      *simrt.Run
	ctx    sdk.Context
	ts     []*timertypes.TimerStore
	models []*tmModel
	// tick state, valid while inside Tick
	inTick    bool
	tickStore int
	fired     int
	uniq      int
}

var tmAlphabet = []byte{0x00, 'a', 'b', 0xff}

func (w *tmWorld) genKey() string {
	n := w.r.Draw("ops", 4)
	b := make([]byte, n)
	for i := range b {
		b[i] = tmAlphabet[w.r.Draw("ops", len(tmAlphabet))]
	}
	return string(b)
}

func (w *tmWorld) now(kind int) uint64 {
	if kind == 0 {
		return uint64(w.ctx.BlockHeight())
	}
	return uint64(w.ctx.BlockTime().UTC().Unix())
}

func (w *tmWorld) add(ctx sdk.Context, s, kind int, m *tmModel, where string) {
	delta := uint64(1 + w.r.Draw("ops", 6))
	if w.r.Chance("ops", 1, 8) {
		delta = uint64(1 + w.r.Draw("ops", 40))
	}
	expiry := w.now(kind) + delta
	// bias towards colliding with an existing expiry
	if ks := m.sorted(kind); len(ks) > 0 && w.r.Chance("ops", 1, 3) {
		k := ks[w.r.Draw("ops", len(ks))]
		if k.expiry > w.now(kind) {
			expiry = k.expiry
		}
	}
	key := w.genKey()
	if ks := m.sorted(kind); len(ks) > 0 && w.r.Chance("ops", 1, 4) {
		key = ks[w.r.Draw("ops", len(ks))].key
	}
	w.uniq++
	data := fmt.Sprintf("d%d", w.uniq)
	if w.r.Chance("ops", 1, 6) {
		data = "" // empty payloads are legal (the fixation store uses only those)
		w.r.Probe("empty_data")
	}
	if kind == 0 {
		w.ts[s].AddTimerByBlockHeight(ctx, expiry, []byte(key), []byte(data))
	} else {
		w.ts[s].AddTimerByBlockTime(ctx, expiry, []byte(key), []byte(data))
	}
	if _, ok := m.m[kind][tmKey{expiry, key}]; ok {
		w.r.Probe("overwrite_same_expiry_key")
	}
	m.m[kind][tmKey{expiry, key}] = data
	w.r.Op(where+"add", "ok")
	w.r.Logf("%s add store=%d kind=%d expiry=%d key=%q data=%s", where, s, kind, expiry, key, data)
}

func (w *tmWorld) del(ctx sdk.Context, s, kind int, m *tmModel, where string) {
	ks := m.sorted(kind)
	if len(ks) == 0 {
		return
	}
	k := ks[w.r.Draw("ops", len(ks))]
	if kind == 0 {
		w.ts[s].DelTimerByBlockHeight(ctx, k.expiry, []byte(k.key))
	} else {
		w.ts[s].DelTimerByBlockTime(ctx, k.expiry, []byte(k.key))
	}
	delete(m.m[kind], k)
	w.r.Op(where+"del", "ok")
	w.r.Logf("%s del store=%d kind=%d expiry=%d key=%q", where, s, kind, k.expiry, k.key)
}

func (w *tmWorld) callback(s, kind int) timertypes.TimerCallback {
	return func(ctx sdk.Context, key, data []byte) {
		r := w.r
		m := w.models[s]
		w.fired++
		if !w.inTick || w.tickStore != s {
			r.Fail("fire-outside-tick", "", "store %d kind %d fired key=%q outside its Tick", s, kind, key)
		}
		now := w.now(kind)
		ks := m.sorted(kind)
		r.OracleEvals++
		if len(ks) == 0 || ks[0].expiry > now {
			r.Fail("unexpected-fire", fmt.Sprintf("kind%d", kind), "store %d kind %d fired key=%q data=%q at now=%d but the model has no due timer (deleted, already fired, or not yet due)", s, kind, key, data, now)
		}
		exp := ks[0]
		if exp.key != string(key) || m.m[kind][exp] != string(data) {
			r.Fail("wrong-order-or-data", fmt.Sprintf("kind%d", kind), "store %d kind %d fired key=%q data=%q at now=%d; model expects (expiry=%d key=%q data=%q) next", s, kind, key, data, now, exp.expiry, exp.key, m.m[kind][exp])
		}
		delete(m.m[kind], exp)
		r.Logf("  fire store=%d kind=%d expiry=%d key=%q data=%s now=%d", s, kind, exp.expiry, exp.key, data, now)
		// tape-chosen behaviour inside the callback
		switch r.Draw("cb", 6) {
		case 0:
			w.add(ctx, s, kind, m, "cb-")
			r.Probe("callback_added_timer")
		case 1:
			w.add(ctx, s, 1-kind, m, "cb-")
			r.Probe("callback_added_timer_other_kind")
		case 2:
			if len(m.m[kind]) > 0 {
				before := len(m.m[kind])
				w.del(ctx, s, kind, m, "cb-")
				if len(m.m[kind]) < before {
					r.Probe("callback_deleted_timer")
				}
			}
		}
	}
}

func runC15(r *simrt.Run) {
	ctx, cdc := initCtx()
	w := &tmWorld{r: r}
	start := time.Date(2024, 1, 1, 0, 0, 0, 0, time.UTC).Add(time.Duration(r.Draw("cfg", 1000)) * time.Second)
	w.ctx = ctx.WithBlockHeight(int64(1 + r.Draw("cfg", 5))).WithBlockTime(start)
	nStores := 1 + r.Draw("cfg", 2)
	names := []string{"ts_a", "ts_ab"}
	for s := 0; s < nStores; s++ {
		ts := timertypes.NewTimerStore(mockStoreKey, cdc, names[s])
		ts = ts.WithCallbackByBlockHeight(w.callback(s, 0)).WithCallbackByBlockTime(w.callback(s, 1))
		w.ts = append(w.ts, ts)
		w.models = append(w.models, newTmModel())
	}
	steps := 20 + r.Draw("cfg", 60)
	if r.Tier == "thorough" {
		steps = 40 + r.Draw("cfg", 400)
	}
	tickEvery := 1 + r.Draw("cfg", 3) // profile knob: how often ops are separated by ticks
	startT := w.ctx.BlockTime()
	for i := 0; i < steps; i++ {
		r.Step()
		s := r.Draw("ops", nStores)
		kind := r.Draw("ops", 2)
		m := w.models[s]
		switch op := r.Draw("ops", 6+tickEvery); {
		case op <= 1:
			w.add(w.ctx, s, kind, m, "")
		case op == 2:
			w.del(w.ctx, s, kind, m, "")
		case op == 3:
			// failed transaction: operations on a cache context that is discarded
			cctx, _ := w.ctx.CacheContext()
			mm := m.clone()
			n := 1 + r.Draw("ops", 3)
			for j := 0; j < n; j++ {
				if r.Chance("ops", 2, 3) {
					w.add(cctx, s, r.Draw("ops", 2), mm, "rb-")
				} else {
					w.del(cctx, s, r.Draw("ops", 2), mm, "rb-")
				}
			}
			r.Fault("tx_rollback")
			r.Logf("rollback of %d ops on store %d", n, s)
		case op == 4:
			// has-queries against the model
			for _, kd := range []int{0, 1} {
				for _, k := range m.sorted(kd) {
					var has bool
					if kd == 0 {
						has = w.ts[s].HasTimerByBlockHeight(w.ctx, k.expiry, []byte(k.key))
					} else {
						has = w.ts[s].HasTimerByBlockTime(w.ctx, k.expiry, []byte(k.key))
					}
					r.Check(has, "has-mismatch", "", "store %d kind %d timer (%d,%q) in model but HasTimer=false", s, kd, k.expiry, k.key)
				}
			}
			k := tmKey{w.now(kind) + uint64(1+r.Draw("ops", 6)), w.genKey()}
			_, inModel := m.m[kind][k]
			var has bool
			if kind == 0 {
				has = w.ts[s].HasTimerByBlockHeight(w.ctx, k.expiry, []byte(k.key))
			} else {
				has = w.ts[s].HasTimerByBlockTime(w.ctx, k.expiry, []byte(k.key))
			}
			r.Check(has == inModel, "has-mismatch", "", "store %d kind %d HasTimer(%d,%q)=%v model=%v", s, kind, k.expiry, k.key, has, inModel)
			r.Op("has", "ok")
		default:
			// advance the clock and tick every store
			dh := 1
			dt := time.Duration(1+r.Draw("ops", 3)) * time.Second
			switch r.Draw("fault", 10) {
			case 0:
				dh = 2 + r.Draw("fault", 8)
				r.Fault("ticks_skipped")
			case 1:
				dt = time.Duration(5+r.Draw("fault", 60)) * time.Second
				r.Fault("time_jump")
			case 2:
				dt = 0
				r.Fault("time_stall")
			case 3:
				dt = time.Duration(r.Draw("fault", 999)) * time.Millisecond
				r.Fault("subsecond_block")
			}
			w.ctx = w.ctx.WithBlockHeight(w.ctx.BlockHeight() + int64(dh)).WithBlockTime(w.ctx.BlockTime().Add(dt))
			r.Logf("tick height=%d time=%d", w.ctx.BlockHeight(), w.ctx.BlockTime().Unix())
			for s2 := range w.ts {
				w.inTick, w.tickStore = true, s2
				w.ts[s2].Tick(w.ctx)
				w.inTick = false
				// nothing due may remain
				for kd := 0; kd < 2; kd++ {
					ks := w.models[s2].sorted(kd)
					r.OracleEvals++
					if len(ks) > 0 && ks[0].expiry <= w.now(kd) {
						r.Fail("missed-fire", fmt.Sprintf("kind%d", kd), "store %d kind %d: timer (expiry=%d key=%q) was due at now=%d but did not fire in this Tick", s2, kd, ks[0].expiry, ks[0].key, w.now(kd))
					}
				}
			}
			r.Op("tick", "ok")
		}
	}
	r.SimSpan = int64(w.ctx.BlockTime().Sub(startT))
	r.Extra["timers_fired"] += int64(w.fired)
}

func init() {
	simrt.Register("C15", &simrt.PropSpec{
		Fn:       runC15,
		Profiles: []string{"default"},
		NonTrivial: func(r *simrt.Run) bool {
			return r.Ops["tick:ok"] >= 3 && r.Extra["timers_fired"] >= 2 && r.FaultsFired() >= 1
		},
		Rule:    "tape-generated add/del/has/tick sequences over 1-2 timer stores sharing one KV store, both timer kinds, keys from a 4-byte alphabet (colliding expiries and keys biased), callbacks that add/delete timers chosen by the tape at firing time; faults: skipped ticks, time jumps/stalls, sub-second blocks, discarded cache-context transactions. Non-trivial = at least 3 ticks, 2 fired timers and 1 fault; distinct = distinct (op,outcome,fault) sequence hash",
		Real:    []string{"x/timerstore/types.TimerStore", "cosmos-sdk IAVL/cachekv store"},
		Stubbed: []string{"block clock (simulated)", "timer users (tape-driven callbacks)"},
		Assume:  []string{"block time is monotonic non-decreasing (BFT time)", "legal API use: expiry strictly in the future, delete only existing timers"},
	})
}
