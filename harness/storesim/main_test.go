package storesim

import (
	"testing"

	tmdb "github.com/cometbft/cometbft-db"
	"github.com/cometbft/cometbft/libs/log"
	tmproto "github.com/cometbft/cometbft/proto/tendermint/types"
	"github.com/cosmos/cosmos-sdk/codec"
	codectypes "github.com/cosmos/cosmos-sdk/codec/types"
	"github.com/cosmos/cosmos-sdk/store"
	storetypes "github.com/cosmos/cosmos-sdk/store/types"
	sdk "github.com/cosmos/cosmos-sdk/types"
	"github.com/lavanet/lava/v5/zz_verif/simrt"
)

func TestSim(t *testing.T) {
	simrt.WorkerMain()
}

var (
	mockStoreKey    = sdk.NewKVStoreKey("storeKey")
	mockMemStoreKey = storetypes.NewMemoryStoreKey("storeMemKey")
)

func initCtx() (sdk.Context, *codec.ProtoCodec) {
	db := tmdb.NewMemDB()
	stateStore := store.NewCommitMultiStore(db)
	registry := codectypes.NewInterfaceRegistry()
	cdc := codec.NewProtoCodec(registry)
	stateStore.MountStoreWithDB(mockStoreKey, storetypes.StoreTypeIAVL, db)
	stateStore.MountStoreWithDB(mockMemStoreKey, storetypes.StoreTypeMemory, nil)
	if err := stateStore.LoadLatestVersion(); err != nil {
		panic(err)
	}
	ctx := sdk.NewContext(stateStore, tmproto.Header{}, false, log.NewNopLogger())
	return ctx, cdc
}
