package storesim

import (
	"fmt"
	"math"
	"os"
	"runtime/debug"
	"sort"
	"strings"
	"time"

	sdk "github.com/cosmos/cosmos-sdk/types"
	fixtypes "github.com/lavanet/lava/v5/x/fixationstore/types"
	timertypes "github.com/lavanet/lava/v5/x/timerstore/types"
	"github.com/lavanet/lava/v5/zz_verif/simrt"
	"github.com/rs/zerolog"
	zerologlog "github.com/rs/zerolog/log"
)

// C14: the fixation store behaves like a versioned, ref-counted map.
//
// The reference model below is written from the documented semantics (the long comment at the top
// of x/fixationstore/types/fixationstore.go and the property statement), not from the code:
//
//   - an index is a list of versions (block, payload, #references taken with GetEntry);
//   - a version is "future" while its block is above the current block; the "current" version is
//     the one with the highest block not above the current block;
//   - a version is referenced by its GetEntry holders, plus one implicit reference while it is
//     future or while it is the current, not deleted version. All of this is DERIVED from the
//     clock — nothing "fires" in the model when a future version matures;
//   - the block at which the number of references reaches zero starts the stale period; the
//     version is invisible from (that block + stale period) on;
//   - DelEntry(D) discards the future versions on or beyond D and makes whatever version is
//     current at D deleted from D on (immediately if D is the current block);
//   - FindEntry(b) = nearest-no-later version, unless deleted by b or stale now;
//     GetEntry = current version unless deleted, takes a reference.
//
// What the statement leaves open is not asserted: WHEN an invisible (stale) version is physically
// removed (only "visible => still stored" and "never stored => absent" are checked), and the
// index listing of an entry whose only remaining versions are deleted/stale after a cancelled
// future version.
//
// Simulated: the block clock (one Tick per block, never skipping a height) and failed
// transactions (operations on a cache context that is discarded).

const fxInf = uint64(math.MaxUint64)

type fxVer struct {
	block    uint64
	val      int64
	holds    int    // references taken with GetEntry and not yet returned with PutEntry
	deleteAt uint64 // this version is deleted from that block on (fxInf: not deleted)
	staleAt  uint64 // invisible from that block on (fxInf: still referenced)
}

type fxIdx struct {
	name    string
	vers    []*fxVer // ascending by block
	pendDel uint64   // a DelEntry scheduled for a future block (fxInf: none)
	taint   bool     // index listing undetermined (see above)
	// hazard names a situation after which the real store is known (suspected finding) to diverge;
	// it is appended to violation signatures of this index so that a known finding can be muted
	// precisely, without muting the same oracle elsewhere.
	hazard string
}

type fxModel struct {
	now   uint64
	stale uint64
	idx   []*fxIdx
	r     *simrt.Run // nil in the throw-away copy used for rolled back transactions
}

func (m *fxModel) probe(name string) {
	if m.r != nil {
		m.r.Probe(name)
	}
}

func (m *fxModel) clone(keepProbes bool) *fxModel {
	c := &fxModel{now: m.now, stale: m.stale}
	if keepProbes {
		c.r = m.r
	}
	for _, ix := range m.idx {
		cx := &fxIdx{name: ix.name, pendDel: ix.pendDel, taint: ix.taint, hazard: ix.hazard}
		for _, v := range ix.vers {
			vv := *v
			cx.vers = append(cx.vers, &vv)
		}
		c.idx = append(c.idx, cx)
	}
	return c
}

func (ix *fxIdx) nearest(b uint64) *fxVer {
	var out *fxVer
	for _, v := range ix.vers {
		if v.block > b {
			break
		}
		out = v
	}
	return out
}

func (ix *fxIdx) at(b uint64) *fxVer {
	for _, v := range ix.vers {
		if v.block == b {
			return v
		}
	}
	return nil
}

func (ix *fxIdx) insert(n *fxVer) {
	ix.vers = append(ix.vers, n)
	sort.Slice(ix.vers, func(i, j int) bool { return ix.vers[i].block < ix.vers[j].block })
}

func (ix *fxIdx) remove(b uint64) {
	out := ix.vers[:0]
	for _, v := range ix.vers {
		if v.block != b {
			out = append(out, v)
		}
	}
	ix.vers = out
}

func (m *fxModel) cur(ix *fxIdx) *fxVer { return ix.nearest(m.now) }

// liveCur: the current version if it is not deleted (this is what GetEntry returns).
func (m *fxModel) liveCur(ix *fxIdx) *fxVer {
	c := m.cur(ix)
	if c == nil || c.deleteAt <= m.now {
		return nil
	}
	return c
}

func (m *fxModel) futures(ix *fxIdx) []*fxVer {
	var out []*fxVer
	for _, v := range ix.vers {
		if v.block > m.now {
			out = append(out, v)
		}
	}
	return out
}

func (m *fxModel) refs(ix *fxIdx, v *fxVer) int {
	n := v.holds
	if v.block > m.now || (v == m.cur(ix) && v.deleteAt > m.now) {
		n++
	}
	return n
}

func (m *fxModel) isStale(ix *fxIdx, v *fxVer) bool {
	return m.refs(ix, v) == 0 && v.staleAt <= m.now
}

// settle starts the stale period of every version that just lost its last reference.
func (m *fxModel) settle(ix *fxIdx) {
	for _, v := range ix.vers {
		if v.staleAt == fxInf && m.refs(ix, v) == 0 {
			v.staleAt = m.now + m.stale
			m.probe("refcount_reached_zero")
		}
	}
	if ix.pendDel != fxInf && m.liveCur(ix) == nil && len(m.futures(ix)) == 0 {
		ix.pendDel = fxInf // nothing left that the scheduled delete could apply to
	}
}

// holder of a scheduled delete: the last version before the delete block.
func (m *fxModel) pendHolder(ix *fxIdx) *fxVer {
	if ix.pendDel == fxInf {
		return nil
	}
	return ix.nearest(ix.pendDel - 1)
}

func (m *fxModel) find(ix *fxIdx, b uint64) *fxVer {
	v := ix.nearest(b)
	if v == nil || v.deleteAt <= b || ix.pendDel <= b || m.isStale(ix, v) {
		return nil
	}
	return v
}

func (m *fxModel) tick() {
	m.now++
	for _, ix := range m.idx {
		if ix.pendDel == m.now {
			if c := m.cur(ix); c != nil && c.deleteAt == fxInf {
				c.deleteAt = m.now
				ix.taint = false
				m.probe("future_delete_fired")
				if c.holds > 0 {
					m.probe("deleted_while_referenced")
				}
			}
			ix.pendDel = fxInf
		}
		for _, v := range ix.vers {
			if v.block == m.now {
				m.probe("future_version_matured")
			}
			if v.staleAt == m.now && m.refs(ix, v) == 0 {
				m.probe("version_became_stale")
			}
		}
		m.settle(ix)
	}
}

// ---- operations -------------------------------------------------------------------------------

type fxOp struct {
	kind  string // append append_reject get put put_future del del_reject modify
	ix    int
	block uint64
	val   int64
}

func (o fxOp) String() string {
	return fmt.Sprintf("%s idx=%d block=%d val=%d", o.kind, o.ix, o.block, o.val)
}

type fxStore struct {
	prefix string
	fs     *fixtypes.FixationStore
	ts     *timertypes.TimerStore
	m      *fxModel
}

type fxWorld struct {
	r       *simrt.Run
	ctx     sdk.Context
	st      []*fxStore
	uniq    int64
	avoid   map[string]bool
	quirk   map[string]bool
	curKind string
	curOp   string
	blocks  int64
	digest  uint64
	checks  int
}

var fxNames = []string{"a", "ab", "a b", "~"}

func (w *fxWorld) draw(n int) int { return w.r.Draw("ops", n) }

func (w *fxWorld) nextVal() int64 {
	w.uniq++
	return w.uniq
}

// genAppend: only legal appends (decided by the model) plus appends that the documentation says
// must be refused (on or beyond a scheduled delete).
func (w *fxWorld) genAppend(m *fxModel, xi int) (fxOp, bool) {
	ix := m.idx[xi]
	op := fxOp{kind: "append", ix: xi, val: w.nextVal()}
	c, live := m.cur(ix), m.liveCur(ix)
	if ix.pendDel != fxInf && w.draw(10) == 9 {
		op.kind = "append_reject"
		op.block = ix.pendDel + uint64(w.draw(3))
		return op, true
	}
	var lo uint64
	switch {
	case live != nil:
		lo = live.block // not older than the latest version (same block = overwrite)
	case c == nil:
		lo = 1
		if m.now > 6 {
			lo = m.now - 6
		}
	default: // current version is deleted: strictly newer than it and not before its deletion
		lo = c.block + 1
		if c.deleteAt > lo {
			lo = c.deleteAt
		}
	}
	hi := m.now + 10
	if ix.pendDel != fxInf {
		hi = ix.pendDel - 1
	}
	if lo > hi {
		return op, false
	}
	clamp := func(b uint64) uint64 {
		if b < lo {
			return lo
		}
		if b > hi {
			return hi
		}
		return b
	}
	switch k := w.draw(10); {
	case k <= 3:
		op.block = clamp(m.now)
	case k <= 6:
		op.block = clamp(m.now + 1 + uint64(w.draw(8)))
	case k == 7:
		back := uint64(1 + w.draw(5))
		if back > m.now {
			back = m.now
		}
		op.block = clamp(m.now - back)
	default:
		// aim at an existing overwritable version (the live latest or a future one)
		var cands []uint64
		for _, v := range ix.vers {
			if v.block >= lo && v.block <= hi {
				cands = append(cands, v.block)
			}
		}
		if len(cands) == 0 {
			op.block = clamp(m.now)
		} else {
			op.block = cands[w.draw(len(cands))]
		}
	}
	return op, true
}

func (w *fxWorld) genPut(m *fxModel, xi int) (fxOp, bool) {
	ix := m.idx[xi]
	var cands []fxOp
	holder := m.pendHolder(ix)
	for _, v := range ix.vers {
		if v.holds > 0 {
			cands = append(cands, fxOp{kind: "put", ix: xi, block: v.block})
		} else if v.block > m.now {
			if v == holder && w.avoid["put_future_delete_holder"] {
				continue
			}
			cands = append(cands, fxOp{kind: "put_future", ix: xi, block: v.block})
		}
	}
	if len(cands) == 0 {
		return fxOp{}, false
	}
	return cands[w.draw(len(cands))], true
}

func (w *fxWorld) genDel(m *fxModel, xi int) (fxOp, bool) {
	ix := m.idx[xi]
	live := m.liveCur(ix)
	futs := m.futures(ix)
	op := fxOp{kind: "del", ix: xi}
	switch {
	case ix.pendDel != fxInf:
		// a second delete on top of a scheduled one is refused
		h := m.pendHolder(ix)
		if h == nil || w.draw(4) != 3 {
			return op, false
		}
		op.kind = "del_reject"
		op.block = m.now
		if h.block+1 > op.block {
			op.block = h.block + 1
		}
		op.block += uint64(w.draw(6))
		return op, true
	case live != nil:
		if w.draw(3) == 0 {
			op.block = m.now
			if live.block == m.now && w.avoid["del_now_version_of_now"] {
				op.block = m.now + 1
			}
		} else {
			op.block = m.now + 1 + uint64(w.draw(8))
		}
		return op, true
	case len(futs) > 0:
		// no live current version, only future ones: deleting beyond the first future version
		// schedules a delete held by a future version; if the entry never had a current version,
		// deleting exactly at the first future version cancels everything (documented example)
		op.block = futs[0].block
		if m.cur(ix) != nil || w.draw(2) == 1 {
			op.block += 1 + uint64(w.draw(6))
		}
		return op, true
	case len(futs) == 0:
		// unknown or already deleted entry: refused
		if w.draw(4) != 3 {
			return op, false
		}
		op.kind = "del_reject"
		op.block = m.now + uint64(w.draw(5))
		return op, true
	}
	return op, false
}

func (w *fxWorld) genModify(m *fxModel, xi int) (fxOp, bool) {
	ix := m.idx[xi]
	var cands []uint64
	for _, v := range ix.vers {
		if !m.isStale(ix, v) {
			cands = append(cands, v.block)
		}
	}
	if len(cands) == 0 {
		return fxOp{}, false
	}
	return fxOp{kind: "modify", ix: xi, block: cands[w.draw(len(cands))], val: w.nextVal()}, true
}

func (w *fxWorld) genOp(m *fxModel, nIdx int) fxOp {
	xi := w.draw(nIdx)
	var op fxOp
	ok := false
	switch k := w.draw(12); {
	case k <= 3:
		op, ok = w.genAppend(m, xi)
	case k <= 5:
		op, ok = fxOp{kind: "get", ix: xi}, true
	case k <= 7:
		op, ok = w.genPut(m, xi)
		if !ok {
			op, ok = fxOp{kind: "get", ix: xi}, true
		}
	case k <= 9:
		op, ok = w.genDel(m, xi)
	default:
		op, ok = w.genModify(m, xi)
	}
	if !ok {
		op, ok = w.genAppend(m, xi)
	}
	if !ok {
		op = fxOp{kind: "get", ix: xi}
	}
	return op
}

// chk is r.Check, except that a hit of a known finding ends the run quietly: model and store have
// diverged, anything reported after that would only be a follow-up symptom.
func (w *fxWorld) chk(ok bool, class, sig, format string, a ...interface{}) {
	w.r.OracleEvals++
	if !ok {
		// every mismatch on an index on which a known-hazard operation was executed is a
		// consequence of that one defect (its dangling timer can fire on any later version): one
		// stable signature per hazard, whatever lookup notices it first
		if i := strings.LastIndex(sig, "+"); i >= 0 {
			format = "[" + class + "/" + sig[:i] + "] " + format
			class, sig = "hazard-consequence", sig[i+1:]
		}
	}
	if !ok && w.r.Fail(class, sig, format, a...) {
		w.r.Abort()
	}
}

func fxCoin(v int64) sdk.Coin { return sdk.NewCoin("utest", sdk.NewInt(v)) }

// exec runs one operation against the real store on ctx and mirrors it in model m.
func (w *fxWorld) exec(ctx sdk.Context, s *fxStore, m *fxModel, op fxOp, where string) {
	r := w.r
	ix := m.idx[op.ix]
	name := ix.name
	w.curKind = op.kind
	w.curOp = fmt.Sprintf("%s%s store=%s idx=%q block=%d val=%d now=%d", where, op.kind, s.prefix, name, op.block, op.val, m.now)
	outcome := "ok"
	switch op.kind {
	case "append":
		coin := fxCoin(op.val)
		err := s.fs.AppendEntry(ctx, name, op.block, &coin)
		w.chk(err == nil, "append-refused", fxSig("legal", ix), "%s: legal AppendEntry(%q, block=%d) at now=%d failed: %v", s.prefix, name, op.block, m.now, err)
		live, c := m.liveCur(ix), m.cur(ix)
		if ex := ix.at(op.block); ex != nil {
			ex.val = op.val
			m.probe("append_overwrites_same_block")
			if ex.block > m.now {
				m.probe("append_overwrites_future")
			}
		} else {
			if live == nil && c != nil {
				m.probe("append_on_deleted_index")
				ix.taint = false
			}
			if op.block < m.now {
				m.probe("append_retroactive")
			}
			if op.block > m.now {
				m.probe("append_future")
				if fs := m.futures(ix); len(fs) > 0 && fs[len(fs)-1].block > op.block {
					m.probe("append_future_before_existing_future")
				}
			}
			if ix.pendDel != fxInf {
				m.probe("append_before_scheduled_delete")
			}
			ix.insert(&fxVer{block: op.block, val: op.val, deleteAt: fxInf, staleAt: fxInf})
		}
	case "append_reject":
		coin := fxCoin(op.val)
		err := s.fs.AppendEntry(ctx, name, op.block, &coin)
		w.chk(err != nil, "append-accepted", fxSig("beyond-scheduled-delete", ix), "%s: AppendEntry(%q, block=%d) on or beyond the scheduled delete at %d was accepted", s.prefix, name, op.block, ix.pendDel)
		m.probe("append_beyond_scheduled_delete_refused")
		outcome = "rejected"
	case "get":
		var coin sdk.Coin
		found := s.fs.GetEntry(ctx, name, &coin)
		live := m.liveCur(ix)
		w.chk(found == (live != nil), "get-mismatch", fxSig("found", ix), "%s: GetEntry(%q) at now=%d found=%v, model says %v", s.prefix, name, m.now, found, live != nil)
		if live != nil {
			w.chk(coin.Amount.Int64() == live.val, "get-mismatch", fxSig("value", ix), "%s: GetEntry(%q) at now=%d returned value %s, model says version %d value %d", s.prefix, name, m.now, coin.Amount, live.block, live.val)
			live.holds++
			op.block = live.block
			if live.holds >= 2 {
				m.probe("multiple_references")
			}
		} else {
			outcome = "notfound"
			if c := m.cur(ix); c != nil {
				m.probe("get_on_deleted")
			}
		}
	case "put":
		s.fs.PutEntry(ctx, name, op.block)
		v := ix.at(op.block)
		v.holds--
		if m.refs(ix, v) == 0 {
			m.probe("put_last_reference")
		}
		if v.deleteAt <= m.now {
			m.probe("put_on_deleted_version")
		}
	case "put_future":
		s.fs.PutEntry(ctx, name, op.block)
		if m.pendHolder(ix) == ix.at(op.block) {
			m.probe("cancel_future_holding_scheduled_delete")
			ix.hazard = "cancelled-delete-holder"
			if w.quirk["cancel_holder_drops_delete"] {
				ix.pendDel = fxInf // development aid: follow the real store to see what happens next
			}
		}
		ix.remove(op.block)
		m.probe("future_cancelled_by_put")
		if m.liveCur(ix) == nil && len(m.futures(ix)) == 0 && len(ix.vers) > 0 {
			ix.taint = true
		}
	case "del":
		err := s.fs.DelEntry(ctx, name, op.block)
		w.chk(err == nil, "del-refused", fxSig("legal", ix), "%s: legal DelEntry(%q, block=%d) at now=%d failed: %v", s.prefix, name, op.block, m.now, err)
		trimmed := 0
		for _, v := range m.futures(ix) {
			if v.block >= op.block {
				ix.remove(v.block)
				trimmed++
			}
		}
		if trimmed > 0 {
			m.probe("delete_trimmed_future_versions")
		}
		if op.block == m.now {
			live := m.liveCur(ix)
			live.deleteAt = m.now
			ix.taint = false
			m.probe("delete_now")
			if live.holds > 0 {
				m.probe("deleted_while_referenced")
			}
			if live.block == m.now {
				m.probe("delete_now_version_of_now")
			}
		} else if ix.nearest(op.block-1) != nil {
			ix.pendDel = op.block
			m.probe("delete_scheduled")
			if m.liveCur(ix) == nil {
				m.probe("delete_scheduled_without_current_version")
			}
		} else {
			m.probe("delete_cancels_all_future_versions")
		}
	case "del_reject":
		err := s.fs.DelEntry(ctx, name, op.block)
		w.chk(err != nil, "del-accepted", fxSig("double-or-unknown", ix), "%s: DelEntry(%q, block=%d) at now=%d on an entry that is unknown, deleted or already scheduled for delete (at %d) was accepted", s.prefix, name, op.block, m.now, ix.pendDel)
		m.probe("delete_refused")
		outcome = "rejected"
	case "modify":
		coin := fxCoin(op.val)
		s.fs.ModifyEntry(ctx, name, op.block, &coin)
		v := ix.at(op.block)
		v.val = op.val
		if v.block > m.now {
			m.probe("modify_future")
		} else if v != m.liveCur(ix) {
			m.probe("modify_old_version")
		}
	default:
		panic("fx: unknown op " + op.kind)
	}
	m.settle(ix)
	r.Op(where+op.kind, outcome)
	r.Logf("%s%s store=%s idx=%q block=%d val=%d now=%d -> %s", where, op.kind, s.prefix, name, op.block, op.val, m.now, outcome)
}

// ---- oracle -----------------------------------------------------------------------------------

func (w *fxWorld) mix(x uint64) {
	w.digest ^= x + 0x9E3779B97F4A7C15
	w.digest *= 1099511628211
}

// fxGrid: the blocks probed for one index: around the current block, every scheduled/fired delete
// and every version that is still visible; of the long-invisible (stale) versions only the six
// newest plus a rotating eighth, which keeps long runs linear.
func fxGrid(m *fxModel, ix *fxIdx, rot int) []uint64 {
	set := map[uint64]bool{}
	add := func(b uint64) {
		if b == fxInf {
			return
		}
		set[b] = true
		set[b+1] = true
		if b > 0 {
			set[b-1] = true
		}
	}
	add(m.now)
	add(ix.pendDel)
	ghosts := 0
	for _, v := range ix.vers {
		if m.isStale(ix, v) {
			ghosts++
		}
	}
	g := 0
	for _, v := range ix.vers {
		if m.isStale(ix, v) {
			g++
			if ghosts-g >= 6 && (g+rot)%8 != 0 {
				continue
			}
		}
		add(v.block)
		add(v.deleteAt)
	}
	out := make([]uint64, 0, len(set))
	for b := range set {
		out = append(out, b)
	}
	sort.Slice(out, func(i, j int) bool { return out[i] < out[j] })
	return out
}

// fxDesc prints the model of one index lazily (only when a check fails).
type fxDesc struct {
	m  *fxModel
	ix *fxIdx
}

func (w *fxWorld) describe(m *fxModel, ix *fxIdx) fxDesc { return fxDesc{m, ix} }

func (d fxDesc) String() string {
	m, ix := d.m, d.ix
	var sb strings.Builder
	fmt.Fprintf(&sb, "now=%d stale=%d pendDel=%s [", m.now, m.stale, fxB(ix.pendDel))
	for _, v := range ix.vers {
		fmt.Fprintf(&sb, " {b=%d val=%d holds=%d refs=%d del=%s staleAt=%s}", v.block, v.val, v.holds, m.refs(ix, v), fxB(v.deleteAt), fxB(v.staleAt))
	}
	sb.WriteString(" ]")
	return sb.String()
}

func fxKeys(m map[string]bool) []string {
	var ks []string
	for k, v := range m {
		if v {
			ks = append(ks, k)
		}
	}
	sort.Strings(ks)
	return ks
}

func fxB(b uint64) string {
	if b == fxInf {
		return "-"
	}
	return fmt.Sprint(b)
}

func fxSig(base string, ix *fxIdx) string {
	if ix.hazard != "" {
		return base + "+" + ix.hazard
	}
	return base
}

// checkStore compares every lookup of the real store with the model (non-mutating calls only;
// GetEntry is probed on a cache context that is thrown away).
func (w *fxWorld) checkStore(ctx sdk.Context, s *fxStore, m *fxModel, after string) {
	listed := map[string]bool{}
	for _, n := range s.fs.GetAllEntryIndices(ctx) {
		w.chk(!listed[n], "indices-mismatch", "duplicate", "%s after %s: GetAllEntryIndices lists %q twice", s.prefix, after, n)
		listed[n] = true
	}
	known := map[string]bool{}
	for _, ix := range m.idx {
		known[ix.name] = true
	}
	for _, n := range fxNames {
		if !known[n] {
			w.chk(!listed[n], "indices-mismatch", "never-appended", "%s after %s: GetAllEntryIndices lists %q which was never appended", s.prefix, after, n)
		}
	}
	for _, ix := range m.idx {
		name := ix.name
		live := m.liveCur(ix)
		futs := m.futures(ix)
		// index listing
		switch {
		case live != nil:
			w.chk(listed[name], "indices-mismatch", fxSig("live-missing", ix), "%s after %s: %q has a live current version but is not in GetAllEntryIndices; model %s", s.prefix, after, name, w.describe(m, ix))
		case len(futs) > 0:
			w.chk(listed[name], "indices-mismatch", fxSig("future-missing", ix), "%s after %s: %q has pending future versions but is not in GetAllEntryIndices; model %s", s.prefix, after, name, w.describe(m, ix))
		case !ix.taint:
			w.chk(!listed[name], "indices-mismatch", fxSig("deleted-listed", ix), "%s after %s: %q is unknown or deleted but is in GetAllEntryIndices; model %s", s.prefix, after, name, w.describe(m, ix))
		}
		// lookups over the grid of interesting blocks
		w.checks++
		for _, b := range fxGrid(m, ix, w.checks) {
			exp := m.find(ix, b)
			var coin sdk.Coin
			gotBlock, _, _, found := s.fs.FindEntryDetailed(ctx, name, b, &coin)
			// FindEntry is FindEntryDetailed without the version: called around the current block
			coin2, found2 := coin, found
			if b+1 >= m.now && b <= m.now+1 {
				coin2 = sdk.Coin{}
				found2 = s.fs.FindEntry(ctx, name, b, &coin2)
			}
			w.mix(b)
			if found {
				w.mix(gotBlock)
				w.mix(uint64(coin.Amount.Int64()))
			}
			if exp == nil {
				sig := "found-nothing-expected"
				if v := ix.nearest(b); v != nil {
					switch {
					case v.deleteAt <= b || ix.pendDel <= b:
						sig = "found-deleted"
					case m.isStale(ix, v):
						sig = "found-stale"
					}
				}
				w.chk(!found && !found2, "find-mismatch", fxSig(sig, ix), "%s after %s: FindEntry(%q, block=%d) found version %d value %s but the model finds nothing; model %s", s.prefix, after, name, b, gotBlock, coin.Amount, w.describe(m, ix))
			} else {
				w.chk(found && found2, "find-mismatch", fxSig("missing", ix), "%s after %s: FindEntry(%q, block=%d) found nothing but the model finds version %d value %d; model %s", s.prefix, after, name, b, exp.block, exp.val, w.describe(m, ix))
				w.chk(gotBlock == exp.block, "find-mismatch", fxSig("wrong-version", ix), "%s after %s: FindEntry(%q, block=%d) returned version %d, model says version %d; model %s", s.prefix, after, name, b, gotBlock, exp.block, w.describe(m, ix))
				w.chk(coin.Amount.Int64() == exp.val && coin2.Amount.Int64() == exp.val, "find-mismatch", fxSig("wrong-value", ix), "%s after %s: FindEntry(%q, block=%d) returned value %s/%s, model says version %d value %d; model %s", s.prefix, after, name, b, coin.Amount, coin2.Amount, exp.block, exp.val, w.describe(m, ix))
				if m.refs(ix, exp) == 0 {
					m.probe("found_in_stale_period")
				}
				if exp.deleteAt <= m.now {
					m.probe("found_deleted_version_before_its_delete_block")
				}
			}
			// exact-version existence
			has := s.fs.HasEntry(ctx, name, b)
			if v := ix.at(b); v == nil {
				w.chk(!has, "has-mismatch", fxSig("phantom", ix), "%s after %s: HasEntry(%q, %d)=true but no such version was appended (or it was cancelled); model %s", s.prefix, after, name, b, w.describe(m, ix))
			} else if !m.isStale(ix, v) {
				w.chk(has, "has-mismatch", fxSig("visible-version-collected", ix), "%s after %s: HasEntry(%q, %d)=false but the version is still visible; model %s", s.prefix, after, name, b, w.describe(m, ix))
			}
		}
		// all versions: every visible version is stored, nothing is stored that never existed
		got := s.fs.GetAllEntryVersions(ctx, name)
		gotSet := map[uint64]bool{}
		for i, b := range got {
			if i > 0 {
				w.chk(got[i-1] < b, "versions-mismatch", fxSig("order", ix), "%s after %s: GetAllEntryVersions(%q)=%v is not strictly ascending", s.prefix, after, name, got)
			}
			gotSet[b] = true
			w.chk(ix.at(b) != nil, "versions-mismatch", fxSig("phantom", ix), "%s after %s: GetAllEntryVersions(%q)=%v contains %d which was never appended or was cancelled; model %s", s.prefix, after, name, got, b, w.describe(m, ix))
			w.mix(b)
		}
		for _, v := range ix.vers {
			if m.isStale(ix, v) {
				if !gotSet[v.block] {
					m.probe("stale_version_collected")
				}
				continue
			}
			w.chk(gotSet[v.block], "versions-mismatch", fxSig("visible-version-collected", ix), "%s after %s: GetAllEntryVersions(%q)=%v lacks version %d which is still visible; model %s", s.prefix, after, name, got, v.block, w.describe(m, ix))
			var coin sdk.Coin
			s.fs.ReadEntry(ctx, name, v.block, &coin)
			w.chk(coin.Amount.Int64() == v.val, "read-mismatch", fxSig("value", ix), "%s after %s: ReadEntry(%q, %d) returned %s, model says %d", s.prefix, after, name, v.block, coin.Amount, v.val)
			w.chk(!s.fs.IsEntryStale(ctx, name, v.block), "stale-mismatch", fxSig("visible-reported-stale", ix), "%s after %s: IsEntryStale(%q, %d)=true but the version is visible; model %s", s.prefix, after, name, v.block, w.describe(m, ix))
		}
		// GetEntry without keeping the reference
		cctx, _ := ctx.CacheContext()
		var coin sdk.Coin
		found := s.fs.GetEntry(cctx, name, &coin)
		w.chk(found == (live != nil), "get-mismatch", fxSig("probe-found", ix), "%s after %s: GetEntry(%q) found=%v, model says %v; model %s", s.prefix, after, name, found, live != nil, w.describe(m, ix))
		if live != nil && found {
			w.chk(coin.Amount.Int64() == live.val, "get-mismatch", fxSig("probe-value", ix), "%s after %s: GetEntry(%q) returned %s, model says version %d value %d", s.prefix, after, name, coin.Amount, live.block, live.val)
		}
	}
}

// ---- panic handling ---------------------------------------------------------------------------

func fxFrames(stack string) string {
	var out []string
	for _, l := range strings.Split(stack, "\n") {
		l = strings.TrimSpace(l)
		if !strings.HasPrefix(l, "github.com/lavanet/lava/v5/x/fixationstore/types.") && !strings.HasPrefix(l, "github.com/lavanet/lava/v5/x/timerstore/types.") {
			continue
		}
		if i := strings.LastIndex(l, "("); i > 0 {
			l = l[:i]
		}
		if i := strings.LastIndex(l, "."); i >= 0 {
			l = l[i+1:]
		}
		if len(out) > 0 && out[len(out)-1] == l {
			continue
		}
		out = append(out, l)
		if len(out) == 3 {
			break
		}
	}
	return strings.Join(out, "<")
}

func (w *fxWorld) hazards() string {
	set := map[string]bool{}
	for _, s := range w.st {
		for _, ix := range s.m.idx {
			if ix.hazard != "" {
				set[ix.hazard] = true
			}
		}
	}
	var hs []string
	for h := range set {
		hs = append(hs, h)
	}
	sort.Strings(hs)
	out := ""
	for _, h := range hs {
		out += "+" + h
	}
	return out
}

// guard turns a Go panic of the code under test during legal use into a violation with a stable
// signature (operation kind + innermost fixation/timer store frames).
func (w *fxWorld) guard(fn func()) {
	defer func() {
		p := recover()
		if p == nil {
			return
		}
		if strings.Contains(fmt.Sprintf("%T", p), "simrt.") {
			panic(p) // verdicts of the harness itself
		}
		st := string(debug.Stack())
		w.r.Logf("panic during %s", w.curOp)
		lines := strings.Split(st, "\n")
		if len(lines) > 50 {
			lines = lines[:50]
		}
		pclass, psig := "panic", w.curKind+":"+fxFrames(st)
		if hz := w.hazards(); hz != "" {
			// a known-hazard operation was executed in this run: its dangling timer explains
			// later panics as well
			pclass, psig = "hazard-consequence", strings.TrimPrefix(hz, "+")
		}
		if w.r.Fail(pclass, psig, "legal use panicked during %s (%s): %v\n%s", w.curKind, fxFrames(st), p, strings.Join(lines, "\n")) {
			w.r.Abort()
		}
	}()
	fn()
}

// ---- the run ----------------------------------------------------------------------------------

func (w *fxWorld) advance(n int) {
	r := w.r
	for i := 0; i < n; i++ {
		w.ctx = w.ctx.WithBlockHeight(w.ctx.BlockHeight() + 1)
		w.blocks++
		w.curKind = "tick"
		w.curOp = fmt.Sprintf("tick to block %d", w.ctx.BlockHeight())
		w.guard(func() {
			for _, s := range w.st {
				s.ts.Tick(w.ctx)
			}
		})
		for _, s := range w.st {
			s.m.tick()
			w.chk(uint64(w.ctx.BlockHeight()) == s.m.now, "harness", "clock", "clock drift")
		}
		// full comparison on the last block of the step and on every block at which (or right
		// after which) the model says something is due; a light one (lookups at the current
		// block) on uneventful blocks in between
		due := w.dueAt(uint64(w.ctx.BlockHeight())) || w.dueAt(uint64(w.ctx.BlockHeight())-1)
		w.curKind = "check"
		w.guard(func() {
			for _, s := range w.st {
				if due || i == n-1 {
					w.checkStore(w.ctx, s, s.m, "tick")
				} else {
					w.checkLight(w.ctx, s, s.m)
				}
			}
		})
		r.Logf("tick now=%d digest=%x", w.ctx.BlockHeight(), w.digest)
	}
	r.Op("tick", "ok")
}

func (w *fxWorld) dueAt(b uint64) bool {
	for _, s := range w.st {
		for _, ix := range s.m.idx {
			for _, v := range ix.vers {
				if v.block == b || v.deleteAt == b || v.staleAt == b {
					return true
				}
			}
		}
	}
	return false
}

func (w *fxWorld) checkLight(ctx sdk.Context, s *fxStore, m *fxModel) {
	for _, ix := range m.idx {
		exp := m.find(ix, m.now)
		var coin sdk.Coin
		gotBlock, _, _, found := s.fs.FindEntryDetailed(ctx, ix.name, m.now, &coin)
		w.mix(m.now)
		if found {
			w.mix(gotBlock)
			w.mix(uint64(coin.Amount.Int64()))
		}
		w.chk(found == (exp != nil), "find-mismatch", fxSig("current-block", ix), "%s after tick: FindEntry(%q, block=%d) found=%v (version %d), model says %v; model %s", s.prefix, ix.name, m.now, found, gotBlock, exp != nil, w.describe(m, ix))
		if found && exp != nil {
			w.chk(gotBlock == exp.block && coin.Amount.Int64() == exp.val, "find-mismatch", fxSig("current-block", ix), "%s after tick: FindEntry(%q, block=%d) returned version %d value %s, model says version %d value %d; model %s", s.prefix, ix.name, m.now, gotBlock, coin.Amount, exp.block, exp.val, w.describe(m, ix))
		}
	}
}

// nextEvent: distance to the next block at which something is due in any model (0: nothing).
func (w *fxWorld) nextEvent() int {
	best := uint64(0)
	for _, s := range w.st {
		for _, ix := range s.m.idx {
			cands := []uint64{ix.pendDel}
			for _, v := range ix.vers {
				cands = append(cands, v.block, v.staleAt)
			}
			for _, c := range cands {
				if c != fxInf && c > s.m.now && (best == 0 || c-s.m.now < best) {
					best = c - s.m.now
				}
			}
		}
	}
	if best > 40 {
		best = 40
	}
	return int(best)
}

func runC14(r *simrt.Run) {
	zerologlog.Logger = zerologlog.Logger.Level(zerolog.PanicLevel) // refused operations log loudly
	ctx, cdc := initCtx()
	w := &fxWorld{r: r, avoid: map[string]bool{}, quirk: map[string]bool{}}
	for _, a := range strings.Split(os.Getenv("C14_AVOID"), ",") {
		if a != "" {
			w.avoid[a] = true
		}
	}
	for _, a := range strings.Split(os.Getenv("C14_QUIRK"), ",") {
		if a != "" {
			w.quirk[a] = true
		}
	}
	w.ctx = ctx.WithBlockHeight(int64(10 + r.Draw("cfg", 20))).WithBlockTime(time.Date(2024, 1, 1, 0, 0, 0, 0, time.UTC))
	stale := uint64(2 + r.Draw("cfg", 11))
	nStores := 1 + r.Draw("cfg", 2)
	nIdx := 1 + r.Draw("cfg", 3)
	steps := 15 + r.Draw("cfg", 60)
	if r.Tier == "thorough" {
		steps = 30 + r.Draw("cfg", 300)
	}
	stopDen := 50
	if r.Tier == "thorough" {
		stopDen = 300
	}
	prefixes := []string{"fx_a", "fx_ab"}
	for i := 0; i < nStores; i++ {
		ts := timertypes.NewTimerStore(mockStoreKey, cdc, prefixes[i])
		fs := fixtypes.NewFixationStore(mockStoreKey, cdc, prefixes[i], ts, func(sdk.Context) uint64 { return stale })
		fs.Init(w.ctx, *fixtypes.DefaultGenesis())
		m := &fxModel{now: uint64(w.ctx.BlockHeight()), stale: stale, r: r}
		for j := 0; j < nIdx; j++ {
			m.idx = append(m.idx, &fxIdx{name: fxNames[j], pendDel: fxInf})
		}
		w.st = append(w.st, &fxStore{prefix: prefixes[i], fs: fs, ts: ts, m: m})
	}
	// Two legal situations are known to break the real store (see the report of this harness):
	// deleting "now" an entry whose current version was appended/matured in this very block, and
	// cancelling (PutEntry) the future version that holds a scheduled delete. They are generated
	// in one run out of four only, so that the other runs are not cut short by them once they are
	// registered as known findings. Development aids: C14_AVOID (comma list) switches them off,
	// C14_HAZARDS=all generates them in every run.
	if r.Draw("cfg", 4) != 3 && os.Getenv("C14_HAZARDS") != "all" {
		w.avoid["del_now_version_of_now"] = true
		w.avoid["put_future_delete_holder"] = true
	}
	r.Logf("cfg start=%d stale=%d stores=%d indices=%d steps=%d avoid=%v", w.ctx.BlockHeight(), stale, nStores, nIdx, steps, fxKeys(w.avoid))
	for i := 0; i < steps; i++ {
		r.Step()
		// 0 (also what an exhausted tape yields while shrinking) ends the run: a shrunk tape then
		// contains every tick it needs explicitly instead of regrowing a tail of implicit ticks
		k := r.Draw("ops", stopDen)
		if k == 0 {
			r.Logf("end of run after %d steps", i)
			break
		}
		if k%10 >= 6 {
			// advance the clock, one block at a time
			n := 1
			switch r.Draw("ops", 6) {
			case 1:
				n = 1 + r.Draw("ops", 4)
			case 2:
				if d := w.nextEvent(); d > 0 {
					n = d
				}
			case 3:
				n = int(stale) + r.Draw("ops", 3)
			}
			w.advance(n)
			continue
		}
		s := w.st[r.Draw("ops", nStores)]
		// (the transaction mode is drawn inside the step frame so that shrinking can delete whole steps)
		switch mode := r.Draw("ops", 8); {
		case mode <= 4:
			// executed directly on the block context
			op := w.genOp(s.m, nIdx)
			w.guard(func() { w.exec(w.ctx, s, s.m, op, "") })
		default:
			// a transaction of 1-3 operations on a cache context; committed or (fault) discarded
			rollback := mode == 7
			cctx, write := w.ctx.CacheContext()
			mm := s.m.clone(!rollback)
			where := "tx-"
			if rollback {
				where = "rb-"
			}
			n := 1 + r.Draw("ops", 3)
			for j := 0; j < n; j++ {
				op := w.genOp(mm, nIdx)
				w.guard(func() { w.exec(cctx, s, mm, op, where) })
				w.curKind = "check"
				w.guard(func() { w.checkStore(cctx, s, mm, where+op.kind) })
			}
			if rollback {
				r.Fault("tx_rollback")
				r.Logf("rollback of %d ops on store %s", n, s.prefix)
			} else {
				write()
				s.m = mm
				r.Probe("tx_committed")
				r.Logf("commit of %d ops on store %s", n, s.prefix)
			}
		}
		w.curKind = "check"
		w.guard(func() {
			for _, s2 := range w.st {
				w.checkStore(w.ctx, s2, s2.m, "op")
			}
		})
		r.Logf("  digest=%x", w.digest)
	}
	r.SimSpan = w.blocks * int64(time.Second)
	r.Extra["blocks"] += w.blocks
}

var fxRareProbes = []string{
	"future_version_matured", "future_delete_fired", "version_became_stale", "append_on_deleted_index",
	"put_last_reference", "future_cancelled_by_put", "append_overwrites_same_block", "delete_trimmed_future_versions",
	"delete_now", "found_in_stale_period", "append_before_scheduled_delete", "deleted_while_referenced",
	"stale_version_collected", "append_retroactive",
}

func init() {
	simrt.Register("C14", &simrt.PropSpec{
		Fn:       runC14,
		Profiles: []string{"default"},
		NonTrivial: func(r *simrt.Run) bool {
			rare := 0
			for _, p := range fxRareProbes {
				if r.Probes[p] > 0 {
					rare++
				}
			}
			return r.Ops["tick:ok"] >= 3 && r.OKOps() >= 10 && rare >= 4
		},
		Rule:    "tape-generated legal sequences of AppendEntry (current/future/retroactive/same-block overwrite), ModifyEntry, GetEntry, PutEntry (drop reference / cancel future version), DelEntry (now/future) over 1-2 fixation stores sharing one KV store and 1-3 indices, interleaved with block advances (one Tick per block; 1..stale+2 blocks or up to the next due event per step); legality decided by the reference model; stale period 2..12 blocks per run; operations documented as refused (append on/beyond a scheduled delete, delete of unknown/deleted/already-scheduled entry) are generated and must return an error and change nothing; faults: transactions of 1-3 operations on a discarded cache context (others on a committed cache context or directly). Two legal situations that currently break the store (DelEntry now on a version of the current block; PutEntry cancelling the future version that holds a scheduled delete) are generated in 1 run out of 4. After every operation and every block all lookups over a grid of blocks are compared with the model. Non-trivial = at least 3 tick steps, 10 successful operations and 4 different rare situations (future matured, future delete fired, version became stale, append on deleted index, last reference put, future cancelled, same-block overwrite, ...); distinct = distinct (op,outcome,fault) sequence hash",
		Real:    []string{"x/fixationstore/types.FixationStore", "x/timerstore/types.TimerStore", "cosmos-sdk IAVL/cachekv store", "proto codec"},
		Stubbed: []string{"block clock (simulated, one Tick per block like the timerstore keeper's BeginBlock)", "fixation users (tape-driven legal callers)", "stale period parameter (per-run constant)"},
		Assume:  []string{"block heights are never skipped (the timer store is ticked on every block)", "legal API use as documented in fixationstore.go: PutEntry only for an outstanding GetEntry reference or to cancel a future version; AppendEntry not older than the latest version, strictly newer than a deleted one; Modify/ReadEntry only on stored versions", "the stale period does not change during a run"},
	})
}
